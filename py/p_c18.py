"""C18  TransientSource keeps its child's registration in step with its state."""
import itertools
import random

import vlib

OPS = ["evC", "evR", "evD", "evM", "rm", "rp", "reg", "rereg", "unreg"]
# the child's event answered A, then remove() (m) / replace(new) (p) by the parent inside the same process_events
OPS_THEN = ["e%s%s" % (a, k) for a in "CRDM" for k in "mp"]


def proto_ok(ops):
    """the documented protocol, as a function of the operation sequence alone (mirrors Transient.proto_step)"""
    reg, dirty = False, False
    for o in ops:
        if o == "reg":
            if reg:
                return False
            reg, dirty = True, False
        elif o == "unreg":
            if not reg or dirty:
                return False
            reg, dirty = False, False
        elif o == "rereg":
            if not reg:
                return False
            dirty = False
        elif o.startswith("e"):
            if not reg or dirty:
                return False
        else:
            if dirty and reg:
                return False
            dirty = True
    return True


def gen_cases(tier, seed):
    rnd = random.Random(seed * 31 + 18)
    cases = []
    maxlen = 4 if tier == "quick" else 6
    for start in ("from", "default"):
        for n in range(0, maxlen + 1):
            for ops in itertools.product(OPS, repeat=n):
                # parent re-/un-registration before the first registration cannot be issued through the loop
                first_reg = next((i for i, o in enumerate(ops) if o == "reg"), len(ops))
                if any(o in ("rereg", "unreg") or o.startswith("e") for o in ops[:first_reg]):
                    continue
                cases.append(start + " " + " ".join(ops))
    # in-callback remove()/replace(): every placement of one such operation in the short sequences
    short = 3 if tier == "quick" else 4
    for n in range(0, short + 1):
        for ops in itertools.product(OPS, repeat=n):
            for pos in range(n + 1):
                for t in OPS_THEN:
                    seq = ["reg"] + list(ops[:pos]) + [t] + list(ops[pos:])
                    if tier == "quick" and not proto_ok(seq):
                        continue
                    cases.append("from " + " ".join(seq))
    nrand = 4000 if tier == "quick" else 60000
    for _ in range(nrand):
        n = rnd.randint(5, 14)
        ops = ["reg"] if rnd.random() < 0.8 else []
        reg, dirty = bool(ops), False
        while len(ops) < n:
            # mostly protocol-following continuations
            if rnd.random() < 0.85:
                cand = [o for o in OPS + OPS_THEN if proto_ok(ops + [o])]
            else:
                cand = OPS + OPS_THEN
            if "reg" not in ops:
                cand = [o for o in cand if o in ("rm", "rp", "reg")]
            if not cand:
                break
            ops.append(rnd.choice(cand))
        cases.append(("from " if rnd.random() < 0.9 else "default ") + " ".join(ops))
    return cases


def judge(case, out):
    """the property on the implementation's observations; returns list of failure kinds"""
    ws = case.split()
    ops = ws[1:]
    if not proto_ok(ops):
        return []
    body = out.split("|")[0].split()
    fails = []
    for t in body:
        k = t[0]
        if k in "GYU" and t.endswith(":0"):
            fails.append({"G": "double-register", "Y": "reregister-unregistered", "U": "double-unregister"}[k] + " " + t)
        elif k == "D" and t.endswith(":1"):
            fails.append("dropped-while-registered " + t)
        elif k == "T" and t[1:] not in ("0", "1"):
            fails.append("returned-other-than-continue-reregister " + t)
    # forwarded events must come from the child registered most recently and still held: ids never go backwards
    fwd = [int(t[1:]) for t in body if t[0] == "F"]
    if fwd != sorted(fwd):
        fails.append("forwarded-from-replaced-child %s" % fwd)
    return fails


def judge_disabled_stays_out(case, by_case):
    """a child that answered Disable stays out of the poller until the parent is registered (enabled) again: a later parent
    reregistration must not register it. The observations of each single operation are obtained by comparing a case with its own
    prefixes, which are cases of the same run (the sequences are enumerated prefix-closed)."""
    ws = case.split()
    ops = ws[1:]
    if not proto_ok(ops):
        return []
    outs = []
    for n in range(len(ops) + 1):
        o = by_case.get(" ".join(ws[:1 + n]))
        if o is None and n == 0:
            o = by_case.get(ws[0] + " ", " | ")
        if o is None:
            return []
        outs.append(o.split("|")[0].split())
    disabled = None
    for n, op in enumerate(ops):
        delta = outs[n + 1][len(outs[n]):]
        if outs[n + 1][:len(outs[n])] != outs[n]:
            return []
        if op == "evD":
            fwd = [t for t in delta if t[0] == "F"]
            disabled = fwd[0][1:] if fwd else disabled
        elif op == "reg" or op in ("rm", "rp") or op.startswith("e") and op not in ("evD",):
            if op == "reg" or op in ("rm", "rp") or op[-1] in "mp":
                disabled = None
        elif op == "rereg" and disabled is not None:
            if ("G%s:1" % disabled) in delta:
                return ["disabled-child-registered-again: child %s answered Disable, yet a later reregistration of the parent (operation %d) registered it again" % (disabled, n + 1)]
    return []


def main(tier, seed):
    chk = vlib.Check("C18", tier, seed)
    st = vlib.standard_front(chk)
    chk.assumptions = ["children are Generic<eventfd>-backed instrumented sources (register twice = EEXIST, unregister twice = ENOENT)",
                       "the wrapper is driven through a real EventLoop (insert/enable/update/disable, as_source_mut for remove()/replace())",
                       "protocol = parent register/unregister alternate, reregister while registered, a reregistration right after remove()/replace()"]
    if not (st.get("harness_ok") and st.get("model_ok")):
        chk.violation("build", "correspondence broken: build failed\n%s\n%s" % (st.get("harness_log", "")[-2000:], st.get("model_log", "")[-2000:]), nofail=True)
        chk.cov.update({"evaluations": 0, "distinct_nontrivial": 0})
        return chk.finish()
    cases = gen_cases(tier, seed)
    impl, ilog = vlib.run_impl(["transient"], cases)
    model, mlog = vlib.run_model(["transient"], cases)
    diffs, bad, known_hit = [], [], False
    nproto = 0
    by_case = dict(zip(cases, impl))
    for c, i, m in zip(cases, impl, model):
        if i != m.rsplit(" | proto=", 1)[0]:
            diffs.append((c, i, m))
        fs = judge(c, i) + judge_disabled_stays_out(c, by_case)
        if proto_ok(c.split()[1:]):
            nproto += 1
        if fs:
            if "evD" in c.split() and all(f.startswith("double-unregister") for f in fs):
                known_hit = True
            else:
                bad.append((c, i, fs))
    chk.cov.update({
        "evaluations": len(cases), "distinct_nontrivial": len(set(impl)),
        "traces_validated_against_impl": len(cases) - len(diffs),
        "protocol_following_cases": nproto,
        "exhaustive": True,
        "rule": "ALL operation sequences up to length %d over the 9 operations from both From<T> and Default (those issuable through a loop) + seeded random "
                "longer sequences (85%% protocol-following steps); distinct by observation line" % (4 if tier == "quick" else 6),
        "samples": [{"case": c, "impl": i, "model": m} for c, i, m in list(zip(cases, impl, model))[-3:]],
        "model_impl_disagreements": len(diffs),
    })
    # outside the model's operations: the PARENT answers PostAction::Disable itself after its child's event, so the loop unregisters it
    # directly (no reregistration); then it is enabled again and served. Judged on the calls the children saw: none may fail.
    dcases = ["from reg eDd reg evC", "from reg eDd reg eDd reg", "from reg evC eDd reg evC", "from reg eCd reg evC", "from reg eRd reg evC", "from reg eMd reg",
              "from reg eDd reg unreg reg evC", "default rp reg eDd reg evC"]
    dimpl, _ = vlib.run_impl(["transient"], dcases)
    chk.cov["parent_answers_disable_itself"] = {"cases": len(dcases), "sample": {"case": dcases[0], "impl": dimpl[0] if dimpl else ""}}
    for c, i in zip(dcases, dimpl):
        calls = [w for w in i.split("|")[0].split() if w[0] in "GYU" and ":" in w]
        failed = [w for w in calls if w.endswith(":0")] + [w for w in i.split("|")[0].split() if w == "S0"]
        if failed or i.startswith("PANIC"):
            bad.append((c, i, ["the parent answered Disable itself after its child's event (so it was unregistered without the reregistration the child had asked "
                               "for) and was enabled again: the child calls / wrapper results %s failed - the child's registration was not in step with its parent's "
                               "(G = register, Y = reregister, U = unregister, S = the wrapper's own result)" % failed]))
    # a removed child whose fd becomes ready before the reregistration that will unregister it: nothing is forwarded any more
    rcases = [("from reg rm evC rereg", 0), ("from reg evC rm evC evC rereg", 1), ("from reg evR rm evC rereg", 1)]
    rimpl, _ = vlib.run_impl(["transient"], [c for c, _ in rcases])
    chk.cov["removed_child_ready_before_reregistration"] = {"cases": len(rcases), "sample": {"case": rcases[0][0], "impl": rimpl[0] if rimpl else ""}}
    for (c, want), i in zip(rcases, rimpl):
        nf = len([w for w in i.split("|")[0].split() if w[0] == "F"])
        if nf != want or i.startswith("PANIC"):
            bad.append((c, i, ["the fd of a child that had been removed became ready before the parent's reregistration: %d events were forwarded in this history, "
                               "%d come from a current child - an event was forwarded from a child that is no longer the current one" % (nf, want)]))
    if known_hit:
        k = [x for x in vlib.load_known() if x.get("id") == "F7" and x.get("status") == "known"]
        if k:
            chk.known("F7", "F7: " + k[0]["what"])
        else:
            bad.append(("from reg evC evD rereg", "", ["double-unregister (F7 not listed as known)"]))
    if bad:
        c, i, fs = min(bad, key=lambda x: len(x[0]))
        chk.violation("oracle", "C18 violated on the real code: %s\n%s\n# implementation observations: %s\n(%d failing protocol-following cases)" % (fs[0], c, i, len(bad)))
    elif diffs or not st["proof"]["ok"] or ilog or mlog:
        why = []
        if not st["proof"]["ok"]:
            why.append("proof obligation no longer checks: %s" % st["proof"]["failed"])
        if diffs:
            c, i, m = min(diffs, key=lambda x: len(x[0]))
            why.append("correspondence differs on %d cases; shortest: `%s`\n impl : %s\n model: %s" % (len(diffs), c, i, m))
        if ilog or mlog:
            why.append("runner: %s %s" % (ilog[:300], mlog[:300]))
        chk.violation("broken", "C18 is no longer shown to hold.\n" + "\n".join(why) +
                      "\nthe oracle judged all %d protocol-following cases of this run on the real code: no failing input found\n%s" % (nproto, diffs[0][0] if diffs else ""), nofail=True)
    return chk.finish()


def replay(path):
    cases = [l.strip() for l in open(path) if l.split() and l.split()[0] in ("from", "default")]
    vlib.build_harness()
    dcases = [c for c in cases if any(len(w) == 3 and w[0] == "e" and w[2] == "d" for w in c.split())]
    if dcases:
        # outside the model: judged on the children's calls alone
        dimpl, _ = vlib.run_impl(["transient"], dcases)
        rc = 0
        for c, i in zip(dcases, dimpl):
            failed = [w for w in i.split("|")[0].split() if (w[0] in "GYU" and w.endswith(":0")) or w == "S0"]
            print(c, "->", i, "" if not failed else "  FAILS: %s" % failed)
            rc = rc or (1 if failed else 0)
        return rc
    vlib.build_model()
    impl, _ = vlib.run_impl(["transient"], cases)
    model, _ = vlib.run_model(["transient"], cases)
    rc = 0
    for c, i, m in zip(cases, impl, model):
        print("%s\n  impl : %s\n  model: %s\n  oracle: %s" % (c, i, m, judge(c, i) or "ok"))
        if i != m.rsplit(" | proto=", 1)[0] or judge(c, i):
            rc = 1
    return rc
