"""C14 (decided on the sequential loop model; see p_seqprops.py, oracles.py, coq/props/C14.v)"""
import p_seqprops

PROPS = ["C14"]
PROFILES = [(3, {"lc_prob": 0.8, "kinds": {"comp": 6, "ping": 1, "timer": 1, "chan": 1}, "share_fd_prob": 0.2, "stats_prob": 0.8}), (1, {})]


def main(tier, seed):
    return p_seqprops.run("C14", tier, seed, PROFILES, props=PROPS)


def replay(path):
    return p_seqprops.replay("C14", path, props=PROPS)
