"""C14 (decided on the sequential loop model; see p_seqprops.py, oracles.py, coq/props/C14.v)"""
import os
import random
import subprocess
import tempfile

import p_seqprops

PROPS = ["C14"]
PROFILES = [(3, {"lc_prob": 0.8, "kinds": {"comp": 6, "ping": 1, "timer": 1, "chan": 1}, "share_fd_prob": 0.2, "stats_prob": 0.8}), (1, {})]
WAIT_MS = 250


def timed_cases(tier, seed):
    """lifecycle-only scenarios whose dispatches really wait (harness seqtimed): 1-3 lifecycle composites over idle fds, each with a
    script of before_sleep answers (0 = None, 1 = a synthetic event) per dispatch, with disable / enable between dispatches (which
    re-orders the lifecycle list)"""
    rnd = random.Random(seed * 313 + 14)
    out = ["=== lct_a\nB 1 1\nB 1 0\nB 2 0\nB 2 0\nC insert 1 comp 1 1 10 1 0\nC insert 2 comp 1 1 11 1 0\nD 0\nD 0\n",
           "=== lct_b\nB 1 0\nB 1 0\nB 2 1\nB 2 0\nC insert 1 comp 1 1 10 1 0\nC insert 2 comp 1 1 11 1 0\nD 0\nD 0\n",
           "=== lct_c\nB 1 1\nB 1 1\nB 2 0\nB 2 0\nC insert 1 comp 1 1 10 1 0\nC insert 2 comp 1 1 11 1 0\nD 0\nC disable 1\nC enable 1\nD 0\n"]
    for k in range(4 if tier == "quick" else 40):
        n = rnd.randint(1, 3)
        nd = rnd.randint(2, 3)
        lines = ["=== lct%d" % k]
        for h in range(1, n + 1):
            for _ in range(nd + 1):
                lines.append("B %d %d" % (h, rnd.choice([0, 0, 1])))
        for h in range(1, n + 1):
            lines.append("C insert %d comp 1 1 %d 1 0" % (h, 9 + h))
        for _ in range(nd):
            if rnd.random() < 0.4:
                h = rnd.randint(1, n)
                lines += ["C disable %d" % h, "C enable %d" % h]
            lines.append("D 0")
        out.append("\n".join(lines) + "\n")
    return out


def judge_timed(trace):
    """per dispatch: a synthetic before_sleep event (BS line with code 1) forces a non-blocking wait; without one, and with nothing
    else pending, the dispatch waits out its timeout"""
    bs, k = [], 0
    for l in trace:
        ws = l.split()
        if ws[0] == "17":
            bs = []
        elif ws[0] == "3":
            bs.append((int(ws[1]), int(ws[2])))
        elif ws[0] == "20":
            k += 1
            el = int(ws[1])
            synth = [h for h, c in bs if c == 1]
            if synth and el > 120:
                return ("dispatch %d blocked for %d ms although before_sleep of source %d had returned a synthetic event (before_sleep calls: %s): "
                        "a synthetic event must force a non-blocking wait" % (k, el, synth[0], bs))
            if not synth and el + 10 < WAIT_MS:
                return "dispatch %d returned after %d ms of %d with no event, no synthetic event and nothing pending" % (k, el, WAIT_MS)
    return None


def timed_stage(chk, st):
    import seqlib
    import vlib
    cases = timed_cases(chk.tier, chk.seed)
    with tempfile.NamedTemporaryFile("w", suffix=".scn", delete=False, dir=os.path.join(vlib.ROOT, "replays")) as f:
        f.write("".join(cases))
        path = f.name
    try:
        p = subprocess.run([vlib.HARNESS, "seqtimed", path, str(WAIT_MS)], stdout=subprocess.PIPE, stderr=subprocess.PIPE, text=True, timeout=600)
    finally:
        os.unlink(path)
    traces = seqlib.split_traces(p.stdout)
    bad = []
    for c in cases:
        sid = c.split("\n")[0][4:].strip()
        why = judge_timed(traces.get(sid, []))
        if why:
            bad.append((c, why, traces.get(sid, [])))
    chk.cov["timed_lifecycle_cases"] = {"cases": len(cases), "failing": len(bad), "wait_ms": WAIT_MS,
                                        "rule": "harness seqtimed: the scenario's dispatches really wait; elapsed time per dispatch vs the before_sleep answers of that dispatch"}
    if bad:
        c, why, tr = bad[0]
        chk.violation("oracle-timed", "C14 violated on the real code: %s\n# timed lifecycle scenario (harness seqtimed <file> %d):\n%s# trace:\n%s"
                      % (why, WAIT_MS, c, "\n".join("#   " + x for x in tr)))


def main(tier, seed):
    return p_seqprops.run("C14", tier, seed, PROFILES, props=PROPS, extra_front=timed_stage)


def replay(path):
    txt = open(path).read()
    if "timed lifecycle scenario" in txt:
        import seqlib
        import vlib
        vlib.build_harness()
        i = txt.index("=== ")
        j = txt.index("# trace:")
        scn = txt[i:j]
        with tempfile.NamedTemporaryFile("w", suffix=".scn", delete=False) as f:
            f.write(scn)
        p = subprocess.run([vlib.HARNESS, "seqtimed", f.name, str(WAIT_MS)], stdout=subprocess.PIPE, text=True)
        os.unlink(f.name)
        tr = list(seqlib.split_traces(p.stdout).values())
        why = judge_timed(tr[0]) if tr else "no trace"
        print(why or "ok")
        return 1 if why else 0
    return p_seqprops.replay("C14", path, props=PROPS)
