#!/usr/bin/env python3
"""Regenerates /verif/MANIFEST.json from the table below (kept in one place so it stays valid)."""
import json
import os
import subprocess

ROOT = os.path.dirname(os.path.dirname(os.path.abspath(__file__)))
SEQ_NOTE = ("Theorems are about the Gallina model coq/theories/Loop.v (a transcription of loop_logic.rs, sources/mod.rs, list.rs, sys.rs, "
            "generic.rs, timer.rs, ping/eventfd.rs, channel.rs); the model is tied to /repo by running the real crate and the extracted "
            "model on the same generated scenarios each run (traces must be equal) and by re-reading constants. Kernel epoll/eventfd "
            "rules and BinaryHeap tie order are an assumed environment model (Env.v). No axioms.")

CHECKS = {
    "C20": dict(
        text="Round trips, injectivity, the reserved-key exclusion, generation/sub-id successors and the TokenFactory contract are Coq theorems over all representable values (no sampling); the Gallina codec is tied to src/token.rs and sys.rs::TokenFactory by running both on ~40k boundary/random cases per run and by re-reading BITS_VERSION/BITS_SUBID from the source into Consts.v.",
        note="64-bit usize only. Trusted: Coq kernel, ExtrOcamlBasic extraction, ocaml/driver, the accessors in src/verif.rs. No axioms.",
        technique="Coq proof (N arithmetic, div/mod lemmas) + extracted-model differential correspondence", ref="DESIGN.md 4 (C20)"),
    "C09": dict(
        text="Proved for every scenario of the model (any sources, callback scripts, batch orders, errors): after each event's processing and after every command no post action is pending and nothing is marked running (C09_no_leak_event/_run); only update()/disable() aimed at the running source ever defer; `|`/`|=` law for all 16 pairs. Correspondence: ~1500 (quick) generated histories with failing/self-disabling/self-updating callbacks through the real loop and the extracted model, plus an oracle on the real traces (pending action after dispatch; which instrumented source got (re/un)registered after each callback and how often).",
        note=SEQ_NOTE + " 'Applied exactly once with the right action' is decided by the trace oracle and the model correspondence, not by a separate theorem.",
        technique="Coq proof (invariant over all runs of the loop model) + differential correspondence + trace oracle", ref="DESIGN.md 4 (C09)"),
}

SEQ_TECH = "Coq proof (step/component theorems on the loop model) + differential correspondence on generated histories + trace oracle"
def seq(text, ref, note_extra=""):
    return dict(text=text, note=SEQ_NOTE + " " + note_extra, technique=SEQ_TECH, ref=ref)

CHECKS.update({
 "C01": seq("Proved: every built-in source kind ignores an event whose token is not one it currently holds (no callback), the poller reports only registered keys, keys decode injectively, events for vacant or re-versioned slots are dropped untouched, expired-timer events are due wheel entries. PARTIAL: the whole-history attribution claim is not one theorem; it is decided per run by the model correspondence (~1200 histories with in-callback remove/disable/insert and slot reuse) and by an oracle on the real traces (callback only for inserted+enabled handle, fd really ready at poll time, ping/message really sent).", "DESIGN.md 4 (C01)"),
 "C02": seq("Proved on the environment/loop model: a ready level-triggered entry is reported by every wait; a one-shot entry is disarmed by its report and silent until re-armed; a queued ready edge entry is reported; after a poll no due timer stays in the wheel; an event whose slot resolves reaches that source. PARTIAL: 'the callback was invoked in that dispatch' for whole histories is decided by correspondence and by an oracle that recomputes pending causes (fd counters, pings, queued messages, due timers) at each poll of the real run.", "DESIGN.md 4 (C02)", "The epoll rules themselves are assumed (validated against the kernel by the correspondence runs incl. /proc epoll dumps)."),
 "C05": seq("Proved: the expiry loop returns only due entries (never early), in non-decreasing deadline order, leaves nothing due behind; a timer reacts only to its current token; an unregistered timer is silent. Two repairs made (fix: commits F10 double enable, F14 update on disabled timer). Known findings F4 (Err drops the batch) and F5 (re-arm while the expiry is in the batch; C05_F5_refuted is a vm_compute witness in the model) print KNOWN-FINDING. PARTIAL: exactly-once-per-arming over whole histories is decided by correspondence + oracle (deadline bookkeeping per timer, wheel residue from verif_stats).", "DESIGN.md 4 (C05)"),
 "C06": seq("Proved: right after remove() the token no longer resolves; an unresolved token makes enable/disable/update return InvalidToken and remove a no-op with NO other state change; events for a vacated/re-versioned slot are dropped; slot reuse changes the generation; nothing stays marked running after processing. PARTIAL: 'permanently dead under <65536 reuses' and exactly-once release are decided by correspondence + oracle (callback after removal, token results, drop counters).", "DESIGN.md 4 (C06)"),
 "C07": seq("Proved: after a completed disable()/processed PostAction::Disable the source holds no token and every event aimed at it - including one already in the current batch - is ignored without callback; self-disable is deferred; unregistering touches no other fd's entry. One repair (fix: F14). PARTIAL: silence over the whole gap until enable() and delivery of surviving readiness after enable() are decided by correspondence + oracle.", "DESIGN.md 4 (C07)"),
 "C08": seq("Proved for every state (in particular inside callbacks and idles): an operation panics only if it is a documented exclusion (enable/as_source_mut of the running source, into_source_inner while registered, cancelling the running idle) or exhausts a resource (65535 sub-sources, 2^32 slots); self-directed update/disable are deferred, others take effect at once; no operation changes the borrowed-dispatcher mark. PARTIAL: absence of unreachable!() in the lifecycle loops over whole histories rests on correspondence + oracle (one such panic was found and repaired: fix F15).", "DESIGN.md 4 (C08)"),
 "C13": seq("Proved: insert_idle only appends to the queue and nothing else touches it; the idle phase runs the list taken before it started, head first, skipping cancelled entries; idles inserted during the phase stay queued for the next dispatch. PARTIAL: exactly-once/ordering relative to source callbacks over whole histories via correspondence + oracle.", "DESIGN.md 4 (C13)"),
 "C14": seq("Proved: lifecycle-set recording is idempotent and duplicate-free, an entry is recorded only after a successful registration and always dropped by unregister, the before_handle_events iterator yields exactly the polled events of that source, the before_sleep loop cannot hit unreachable!() when entries resolve. Three repairs (fix: F1, F2, F15). PARTIAL: once-per-dispatch over whole histories via correspondence + oracle (BS/BH lines per dispatch, lifecycle set from verif_stats).", "DESIGN.md 4 (C14)"),
 "C15": seq("Proved: a failing poller call changes neither source nor table; a failed registration records no lifecycle entry; an error from event processing leaves no pending action and nothing running; unresolved tokens are no-ops. Repairs: F2, F3, F15. Known findings F4 (C15_F4_refuted witness) and F11 (partial registration of multi-sub-source sources leaks fds) print KNOWN-FINDING. PARTIAL: as-if-never-made for whole histories via correspondence (shared-fd EEXIST/ENOENT faults at every step) + oracle.", "DESIGN.md 4 (C15)"),
 "C16": seq("Proved on the model: register adds exactly (fd, interest, mode, key) and touches no other fd; unregister/Drop remove the fd; a released fd can be added again; a double add is refused. PARTIAL: 'always exactly the enabled sources' over whole histories is decided by comparing the kernel's own table (/proc/self/fdinfo/<epfd>: fd, mask, key) with the model after every E command and by an oracle on the real dumps. Async adapters are not covered by this check yet.", "DESIGN.md 4 (C16)"),
})

CHECKS["C18"] = dict(
    text="Proved for ALL sequences (any length) of child post-actions, remove(), replace(new), parent register/reregister/unregister that follow the documented protocol and avoid the recorded F7 state: every child (re/un)registration call succeeds (never registered twice, never unregistered while unregistered), every dropped child is unregistered, the wrapper returns only Continue/Reregister, and between operations the child is registered exactly when it is the kept child of a registered parent; events are forwarded only to the kept child. F7 (double unregister after a child returned Disable) is a known finding with a vm_compute witness (C18_F7_refuted). Correspondence: every sequence up to length 4 (thorough 6) plus random longer ones through the real TransientSource inside a real EventLoop with instrumented Generic<eventfd> children.",
    note="Trusted: Coq kernel, extraction, ocaml/driver, harness (instrumented child + transparent observer source). Children are modelled as a registered flag; timer children (double register is silent) are not run. No axioms.",
    technique="Coq proof (exhaustive case analysis lifted by induction over operation sequences) + exhaustive small-sequence differential correspondence", ref="DESIGN.md 4 (C18)")
CHECKS["C19"] = dict(
    text="Proved for ANY history of new/add_signals/remove_signals/set_signals/Drop, raises and dispatches: exactly the configured signals are blocked and watched by the signalfd, pending signals are blocked, nothing stays configured after Drop (C19_mask_exact); a dispatch reports exactly the pending configured signals and leaves none of them pending (reported once, unconfigured never); no pending signal that stays configured ever escapes to its ordinary handler (C19_no_escape). One repair: fix F8 (set_signals window). Correspondence: ~1500 random histories + all short sequences around set_signals run in a real single-threaded process with counting handlers; pthread_sigmask, handler counters and reported signals compared after every call; an oracle judges the real observations directly.",
    note="Kernel signal semantics (coalescing, delivery on unblock, signalfd order) are an assumed environment model validated by the same runs. Sender pid is checked by the harness (own pid), other siginfo fields are not. No axioms.",
    technique="Coq proof (invariant over all histories, pointwise over a finite signal universe) + differential correspondence in a real process", ref="DESIGN.md 4 (C19)")
CHECKS["C12"] = dict(
    text="PARTIAL by nature. Proved: the effective wait computed by dispatch_events/Poll::poll is None only without timeout, synthetic event and armed timer; otherwise exactly the smaller of the (possibly zeroed) timeout and the saturating time to the earliest deadline; a zero timeout never blocks; when the wait ends at or after the earliest deadline a timer with that deadline is among the expired ones. Measured every run: a matrix of real dispatch() calls (timeouts 0/40/400 ms/None+wakeup x timers none/earlier/equal/later/expired/Duration::MAX x idle sources incl. orphaned ping and closed channel) must wait at least the model's effective time (minus 1.5 ms), at most 120 ms longer (re-measured up to 3 times), fire the timer iff it is the limit, and run no idle source's callback.",
    note="The kernel's waiting and the machine's scheduling latency are measured, not modelled; the eff_timeout function is tied to sys.rs only through these measurements (a wrong min/max/saturation shows as a bound violation). No axioms.",
    technique="Coq proof of the timeout arithmetic + wall-clock measurement matrix against the model's effective timeout", ref="DESIGN.md 4 (C12)")
CHECKS["C03"] = dict(
    text="Proved for ANY number of pinger threads, ANY well-formed programs of ping/clone/drop, ANY number of dispatches and ANY schedule at the granularity of one eventfd write/read, Arc count change or poll per step: the counter always encodes exactly the pings written since the last drain plus the close marker (C03_invariant), hence the drain calls back iff at least one ping was written since the previous drain (no loss, no spurious callback, coalescing), a pending ping makes the next poll return the source (progress), the close marker is written at most once and only when no handle is left, the source is removed only by the drain that sees it, and afterwards nothing can write and the counter stays zero (no spinning). Correspondence: ~1300 schedules per quick run executed on real OS threads under a baton scheduler (yield points before every shared effect) and on the extracted model - step/yield-id/observation traces must be equal - plus an oracle on the real traces.",
    note="Eventfd atomicity, the level-triggered readiness of a non-zero counter and Arc's atomic count are the assumed environment; interleavings below the yield-point granularity (compiler/CPU reordering inside a segment) are invisible. EAGAIN at 2^64-2 is not modelled. No axioms.",
    technique="Coq proof (invariant by induction over arbitrary schedules) + controlled-scheduler differential correspondence on real threads", ref="DESIGN.md 4 (C03)")
CHECKS["C04"] = dict(
    text="Proved for channel() and sync_channel(n>=1) used through send/try_send, ANY number of sender threads, ANY well-formed programs of send/clone/drop, ANY number of dispatches and ANY schedule (one mpsc enqueue/try_send, sender-count change, eventfd write/read, poll or try_recv per step): delivered ++ queued = sent (exactly once, in enqueue order, nothing invented); a non-empty queue or a pending disconnect always has a wake-up on its way (readable eventfd, a sender about to ping, or the loop inside its drain loop which ends with Empty/Closed or a self re-ping) whatever the batch limit; Closed is delivered at most once, only with no sender left and an empty queue, and removes the source. Known finding F9 (blocking send on sync_channel(0)) is reproduced by a scheduler witness every run and printed as KNOWN-FINDING. Correspondence: ~900 schedules per quick run on real threads vs the extracted model (step, yield-id and observation traces equal) + an oracle on the real traces.",
    note="std::sync::mpsc is an assumed linearizable FIFO; the blocking SyncSender::send and the rendezvous channel are outside the proved model (F9). Liveness ('completes as long as the loop keeps dispatching') is the no-stranded-wake invariant plus the poll-progress lemma, checked end-to-end only by the runs. No axioms.",
    technique="Coq proof (invariant by induction over arbitrary schedules) + controlled-scheduler differential correspondence on real threads", ref="DESIGN.md 4 (C04)")
CHECKS["C11"] = dict(
    text="Proved for ANY number of signalling threads with ANY programs of stop()/wakeup()/waker.wake(), ANY future script and ANY schedule (one atomic flag access, notify or wait per step): the loop is never blocked in its wait while a notification is pending (a wakeup issued just before the wait is kept); wakeup() ends the wait in progress or stays for the next one, which then returns at once; after stop()+wakeup() issued after the initial reset the loop is `told`, this is stable under every step of every thread, and the loop returns within three of its own steps (at most the iteration in progress); run() returns Ok / block_on returns None only after a stop request since it began; in block_on a set future_ready flag always has a way to make the loop poll again (before its swap, pending notification, or the waker about to notify). Correspondence: ~450 schedules per quick run with the loop thread REALLY blocking in epoll_wait (native-block detection), step/yield-id/observation traces equal to the extracted model, + an oracle on the real traces.",
    note="Poller::notify/wait atomicity and stickiness are the assumed environment. 'After run() has begun' is read as 'after its initial store(false)': a stop() landing before that store is erased by it (recorded observation, DESIGN.md section 5). No axioms.",
    technique="Coq proof (invariant by induction over arbitrary schedules, brute-force case analysis per step) + controlled-scheduler differential correspondence with native blocking", ref="DESIGN.md 4 (C11)")
CHECKS["C10"] = dict(
    text="Proved for ANY number of tasks with ANY poll scripts, ANY schedule/dispatch program of the loop thread, ANY number of waker threads with ANY wake programs, ANY batch limit and ANY schedule (one mpsc enqueue, notified swap/store, eventfd write/read, poll or try_recv per step): a queued runnable always has a wake-up on its way and the notified flag is only set while the eventfd is readable, its setter is about to ping, or the loop is about to clear it (C10_no_lost_wake - the #227 regression breaks exactly this); tasks are polled and their results delivered only by steps of the loop thread; a completing poll delivers the output exactly once. PARTIAL: Executor::drop (all futures dropped, ExecutorDestroyed; finding F13 for a drop racing a wake) and StreamSource are not in the proved model; StreamSource is run sequentially against its specification (items in order once, one None, removal). Correspondence: ~500 schedules per quick run on real threads vs the extracted model (identical step/yield-id/poll/completion traces) + an oracle (every enqueued runnable polled, outputs once, loop-thread-only polls and drops).",
    note="async-task and slab are assumed (DESIGN.md 6.5). Wakes during a poll cannot be scheduled by the baton scheduler (no yield point inside a poll). The 1024 batch limit is proved for an arbitrary limit; the real constant is exercised only by calloop's own more_than_1024 test. No axioms.",
    technique="Coq proof (invariant by induction over arbitrary schedules) + controlled-scheduler differential correspondence on real threads", ref="DESIGN.md 4 (C10)")
CHECKS["C17"] = dict(
    text="PARTIAL. Proved on a model of one direction of an adapter (task polls with any OS-reported transfer sizes, peer progress, dispatches, in ANY interleaving): a suspended task always has its waker stored and its one-shot registration armed; once the fd can transfer one dispatch makes it runnable again (no lost wake); a runnable task makes progress of 1..min(wanted, transferable) bytes; bytes are conserved (moved + transferable = offered). Checked end to end every run on a real UnixStream pair (payloads up to 300 kB/1 MiB, chunk sizes 1..all, both task orders, early dispatch, blocking or non-blocking fd beforehand, drop or into_inner): bytes read == bytes written, both tasks finish, O_NONBLOCK restored, the fds leave the poller table (/proc) and can be adapted again; the reader's event log (polls, read sizes, WouldBlock, peer writes, dispatches) is replayed in the Coq model which must agree at every event. Two repairs: fix F6a (fd never unregistered) and fix F6b (failed adapt_io leaks).",
    note="Byte content, fcntl flags and the kernel table are observed, not proved. One outstanding operation per adapter; split() halves sharing the single waker are out of scope (recorded observation). The socket is an assumed FIFO. No axioms.",
    technique="Coq proof of the waker / one-shot re-arming protocol + model replay of real event logs + end-to-end oracle on real sockets", ref="DESIGN.md 4 (C17)")

def main():
    props = [json.loads(l) for l in open(os.path.join(ROOT, "properties.jsonl"))]
    commits = subprocess.run("git -C /repo log --format=%h --grep='verification hooks' --grep='verif hook' -i", shell=True,
                             stdout=subprocess.PIPE, text=True).stdout.split()
    man = {
        "version": 1,
        "setup_cmd": "make setup",
        "hooks": {"guard": "calloop_verif",
                  "enable": "RUSTFLAGS=\"--cfg calloop_verif\" (set in /verif/harness/.cargo/config.toml)",
                  "baseline_off_cmd": "cd /repo && cargo test --workspace --no-fail-fast --offline",
                  "source_commits": commits, "add_only": True},
        "engines": [
            {"name": "coq-model", "path": "/verif/coq", "serves_properties": sorted(CHECKS),
             "kind_free_text": "hand-written executable Gallina model + theorems (Coq 8.16.1), extracted to OCaml (ocaml/driver)"},
            {"name": "harness", "path": "/verif/harness", "serves_properties": sorted(CHECKS),
             "kind_free_text": "Rust correspondence harness built against /repo with --cfg calloop_verif"}],
        "checks": [],
        "not_applicable": [],
        "notes": "See DESIGN.md. Checks are `./check <id>`; evidence is rewritten on every run; known findings in known_findings.json.",
    }
    for p in props:
        pid = p["id"]
        if pid in CHECKS:
            c = CHECKS[pid]
            man["checks"].append({
                "property_id": pid, "quick_cmd": "./check %s --tier quick" % pid, "thorough_cmd": "./check %s --tier thorough" % pid,
                "evidence_file": "/verif/evidence/%s.json" % pid, "replay_cmd_template": "./check %s --replay {path}" % pid,
                "engine": "coq-model",
                "level_claimed": {"category": "proof", "text": c["text"], "design_ref": c["ref"]},
                "level_note": c["note"], "technique": c["technique"]})
        else:
            man["not_applicable"].append({"property_id": pid, "reason": "check not built yet in this session (work in progress; DESIGN.md section 8 gives the order) - not a claim that the technique cannot apply"})
    json.dump(man, open(os.path.join(ROOT, "MANIFEST.json"), "w"), indent=1)


if __name__ == "__main__":
    main()
