#!/usr/bin/env python3
"""Regenerates /verif/MANIFEST.json from the table below (kept in one place so it stays valid)."""
import json
import os
import subprocess

ROOT = os.path.dirname(os.path.dirname(os.path.abspath(__file__)))
SEQ_NOTE = ("Theorems are about the Gallina model coq/theories/Loop.v (a transcription of loop_logic.rs, sources/mod.rs, list.rs, sys.rs, "
            "generic.rs, timer.rs, ping/eventfd.rs, channel.rs); the model is tied to /repo by running the real crate and the extracted "
            "model on the same generated scenarios each run (traces must be equal) and by re-reading constants. Kernel epoll/eventfd "
            "rules and BinaryHeap tie order are an assumed environment model (Env.v). No axioms.")

CHECKS = {
    "C20": dict(
        text="Round trips, injectivity, the reserved-key exclusion, generation/sub-id successors and the TokenFactory contract are Coq theorems over all representable values (no sampling); the Gallina codec is tied to src/token.rs and sys.rs::TokenFactory by running both on ~40k boundary/random cases per run and by re-reading BITS_VERSION/BITS_SUBID from the source into Consts.v.",
        note="64-bit usize only. Trusted: Coq kernel, ExtrOcamlBasic extraction, ocaml/driver, the accessors in src/verif.rs. No axioms.",
        technique="Coq proof (N arithmetic, div/mod lemmas) + extracted-model differential correspondence", ref="DESIGN.md 4 (C20)"),
    "C09": dict(
        text="Proved for every scenario of the model (any sources, callback scripts, batch orders, errors): after each event's processing and after every command no post action is pending and nothing is marked running (C09_no_leak_event/_run); only update()/disable() aimed at the running source ever defer; `|`/`|=` law for all 16 pairs. Correspondence: ~1500 (quick) generated histories with failing/self-disabling/self-updating callbacks through the real loop and the extracted model, plus an oracle on the real traces (pending action after dispatch; which instrumented source got (re/un)registered after each callback and how often).",
        note=SEQ_NOTE + " 'Applied exactly once with the right action' is decided by the trace oracle and the model correspondence, not by a separate theorem.",
        technique="Coq proof (invariant over all runs of the loop model) + differential correspondence + trace oracle", ref="DESIGN.md 4 (C09)"),
}


def main():
    props = [json.loads(l) for l in open(os.path.join(ROOT, "properties.jsonl"))]
    commits = subprocess.run("git -C /repo log --format=%h --grep='verification hooks' --grep='verif hook' -i", shell=True,
                             stdout=subprocess.PIPE, text=True).stdout.split()
    man = {
        "version": 1,
        "setup_cmd": "make setup",
        "hooks": {"guard": "calloop_verif",
                  "enable": "RUSTFLAGS=\"--cfg calloop_verif\" (set in /verif/harness/.cargo/config.toml)",
                  "baseline_off_cmd": "cd /repo && cargo test --workspace --no-fail-fast --offline",
                  "source_commits": commits, "add_only": True},
        "engines": [
            {"name": "coq-model", "path": "/verif/coq", "serves_properties": sorted(CHECKS),
             "kind_free_text": "hand-written executable Gallina model + theorems (Coq 8.16.1), extracted to OCaml (ocaml/driver)"},
            {"name": "harness", "path": "/verif/harness", "serves_properties": sorted(CHECKS),
             "kind_free_text": "Rust correspondence harness built against /repo with --cfg calloop_verif"}],
        "checks": [],
        "not_applicable": [],
        "notes": "See DESIGN.md. Checks are `./check <id>`; evidence is rewritten on every run; known findings in known_findings.json.",
    }
    for p in props:
        pid = p["id"]
        if pid in CHECKS:
            c = CHECKS[pid]
            man["checks"].append({
                "property_id": pid, "quick_cmd": "./check %s --tier quick" % pid, "thorough_cmd": "./check %s --tier thorough" % pid,
                "evidence_file": "/verif/evidence/%s.json" % pid, "replay_cmd_template": "./check %s --replay {path}" % pid,
                "engine": "coq-model",
                "level_claimed": {"category": "proof", "text": c["text"], "design_ref": c["ref"]},
                "level_note": c["note"], "technique": c["technique"]})
        else:
            man["not_applicable"].append({"property_id": pid, "reason": "check not built yet in this session (work in progress; DESIGN.md section 8 gives the order) - not a claim that the technique cannot apply"})
    json.dump(man, open(os.path.join(ROOT, "MANIFEST.json"), "w"), indent=1)


if __name__ == "__main__":
    main()
