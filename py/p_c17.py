"""C17  Async adapter: byte-exact I/O, tasks always woken, blocking mode restored (PARTIAL, see props/C17.v)."""
import random

import p_c03
import vlib


def gen_cases(tier, seed):
    rnd = random.Random(seed * 29 + 17)
    cases = []
    lens = [0, 1, 12, 4096, 70000, 300000] + ([1048576] if tier == "thorough" else [])
    chunks = [1, 7, 4096, 65536, 1 << 22]
    for ln in lens:
        for _ in range(6 if tier == "quick" else 40):
            w = rnd.choice(chunks)
            r = rnd.choice(chunks)
            if ln > 100000 and min(w, r) < 100:
                r = max(r, 512)
                w = max(w, 512)
            cases.append("%d %d %d %s %d %d %s" % (ln, w, r, rnd.choice(["rw", "wr"]), rnd.randrange(2), rnd.randrange(2), rnd.choice(["drop", "inner"])))
    # the vectored entry points (poll_read_vectored / poll_write_vectored) and adapters living in slots that were used before; a second
    # stream of random choices so that the cases above stay what they were
    r2 = random.Random(seed * 31 + 5)
    for ln in lens:
        for _ in range(3 if tier == "quick" else 16):
            w, r = r2.choice(chunks[1:]), r2.choice(chunks[1:])
            if ln > 100000:
                r, w = max(r, 512), max(w, 512)
            cases.append("%d %d %d %s %d %d %s %d %d" % (ln, w, r, r2.choice(["rw", "wr"]), r2.randrange(2), r2.randrange(2), r2.choice(["drop", "inner"]),
                                                     r2.choice([1, 1, 0]), r2.choice([0, 1, 2])))
    return cases


WOPS = ["pr1", "pr0", "pw1", "pw0", "er0", "er1", "ew0", "ew1", "d", "t"]


def gen_wait_cases(tier, seed):
    """sequences of readable()/writable() polls (staying suspended or abandoned), readiness changes, dispatches and re-polls"""
    import itertools
    rnd = random.Random(seed * 37 + 71)
    cases = []
    # directed: a wait that is abandoned while pending, then a wait for the other direction, then readiness for it
    for first, second, mk in (("pw", "pr", "er1"), ("pr", "pw", "ew1")):
        for stay1 in "01":
            for between in ("", "d", "t", "d t"):
                cases.append(" ".join(x for x in ["ew0", first + stay1, between, second + "1", "d", mk, "d", "t", "d"] if x))
    if tier == "thorough":
        for n in (1, 2, 3, 4):
            for seq in itertools.product(WOPS, repeat=n):
                cases.append(" ".join(seq))
    weights = [3, 2, 3, 2, 1, 2, 2, 2, 4, 2]
    for _ in range(700 if tier == "quick" else 20000):
        cases.append(" ".join(rnd.choices(WOPS, weights=weights, k=rnd.randint(3, 14))))
    return cases


def judge_wait(case, out):
    """on the implementation's own observations: a task suspended in a wait for d, not yet woken, must be woken by a dispatch
    that starts with the fd ready for d"""
    ops, obs = case.split(), out.split()
    if out.startswith("PANIC") or len(obs) != len(ops):
        return ["harness panic / missing observations: %s" % out[:80]]
    kr, kw, susp, woken = False, True, None, False
    for i, (op, ob) in enumerate(zip(ops, obs)):
        if op[0] == "p":
            d, stay = op[1], op[2] == "1"
            susp = d if (ob == "P" and stay) else None
            woken = False
        elif op == "t":
            if ob == "R":
                susp = None
            if ob != "-":
                woken = False
        elif op[0] == "e":
            if op[1] == "r":
                kr = op[2] == "1"
            else:
                kw = op[2] == "1"
        elif op == "d":
            ready = kr if susp == "r" else kw if susp == "w" else False
            if susp and not woken and ready and ob != "w1":
                return ["lost wake: the task is suspended in %s() (op %d), the fd is ready for it, and the dispatch did not wake it"
                        % ("readable" if susp == "r" else "writable", i + 1)]
            if ob == "w1":
                woken = True
    return []


def main(tier, seed):
    chk = vlib.Check("C17", tier, seed)
    st = vlib.standard_front(chk)
    chk.assumptions = ["one outstanding operation per adapter (what &mut self futures allow); split() halves sharing one waker are out of scope",
                       "the socket is an assumed byte FIFO; transfer sizes are the ones the OS reported in the run",
                       "PARTIAL: byte equality, O_NONBLOCK restoration, the poller table after drop/into_inner and re-adaptation are checked end to end on a "
                       "real socketpair; the Coq theorems cover the waker/one-shot re-arming protocol of one direction"]
    if not (st.get("harness_ok") and st.get("model_ok")):
        chk.violation("build", "correspondence broken: build failed\n%s\n%s" % (st.get("harness_log", "")[-2000:], st.get("model_log", "")[-2000:]), nofail=True)
        chk.cov.update({"evaluations": 0, "distinct_nontrivial": 0})
        return chk.finish()
    import p_dupadapt
    p_dupadapt.stage(chk, "C17")
    import p_adaptkey
    p_adaptkey.stage(chk, "C17")
    # write a request, close(), then read the answer on the same adapter
    cout, _ = vlib.run_impl(["asyncclose"], ["x"], timeout=120)
    chk.cov["close_then_read_on_one_adapter"] = cout[0][:200] if cout else "no output"
    if not cout or cout[0].strip() != "wrote=3 closed=1 read=abc finished=1":
        chk.violation("oracle-close", "C17 violated on the real code: a task wrote a request through the adapter, awaited close() and then read the peer's answer, which "
                      "arrived after its first read attempt: it must be woken and read exactly `abc`\nclose case: x\n# result: %s" % (cout[0][:300] if cout else ""))
        return chk.finish()
    cases = gen_cases(tier, seed)
    impl, ilog = vlib.run_impl(["async"], cases, timeout=900)
    replays = []
    for c, o in zip(cases, impl):
        ev = o.split("|")[1].strip() if "|" in o else ""
        replays.append("%s | %s" % (c.split()[0], ev))
    model, mlog = vlib.run_model(["async"], replays)
    bad, diffs = [], []
    want = "made_nb=1 finished=1 bytes_ok=1 flags_ok=1 epoll_clean=1 readapt=1"
    for c, o, m in zip(cases, impl, model):
        head = o.split("|")[0].strip()
        if head != want:
            what = [kv for kv in head.split() if kv.endswith("=0")] or [head[:60]]
            names = {"made_nb=0": "adapt_io did not make the fd non-blocking", "finished=0": "a task awaiting the adapter never completed although the peer made progress (lost wake)",
                     "bytes_ok=0": "the bytes read differ from the bytes written", "flags_ok=0": "the blocking mode the fd had before was not restored after into_inner / after the adapter was dropped (seen through a duplicate of the fd)",
                     "epoll_clean=0": "the fd is still registered with the OS poller after the adapter was dropped/unwrapped",
                     "readapt=0": "the released fd could not be adapted again"}
            bad.append((c, o, [names.get(what[0], what[0])]))
        if m != "OK":
            diffs.append((c, o, m))
    chk.cov.update({
        "evaluations": len(cases), "distinct_nontrivial": len(set(impl)),
        "traces_validated_against_impl": len(cases) - len(diffs),
        "rule": "payloads {0,1,12,4 KiB,70 kB,300 kB(,1 MiB)} x write/read chunk sizes {1,7,4096,65536,all} x task order x early dispatch x blocking/non-blocking "
                "fd beforehand x drop/into_inner on a real UnixStream pair; the reader's event log (polls, read sizes, WouldBlock, peer writes, dispatches) is "
                "replayed in the Coq model, which must agree at every event",
        "samples": [{"case": c, "impl": o[:200], "model_replay": m} for c, o, m in list(zip(cases, impl, model))[:3]],
        "model_impl_disagreements": len(diffs),
    })
    # ---- the wait/wake protocol in both directions, with abandoned waits
    wcases = gen_wait_cases(tier, seed)
    wimpl, wilog = vlib.run_impl(["asyncw"], wcases, timeout=900)
    wmodel, wmlog = vlib.run_model(["asyncw"], wcases)
    wbad = [(c, o, judge_wait(c, o)) for c, o in zip(wcases, wimpl)]
    wbad = [x for x in wbad if x[2]]
    wdiffs = [(c, o, m) for c, o, m in zip(wcases, wimpl, wmodel) if o != m]
    chk.cov["evaluations"] += len(wcases)
    chk.cov["traces_validated_against_impl"] += len(wcases) - len(wdiffs)
    chk.cov["model_impl_disagreements"] += len(wdiffs)
    chk.cov["wait_protocol"] = {"cases": len(wcases), "distinct_outputs": len(set(wimpl)),
                                "rule": "op sequences over {poll readable/writable x stay/abandon, fd un/readable, un/writable, dispatch, re-poll when woken} on a real "
                                        "UnixStream pair: directed abandoned-wait-then-other-direction cases, %s random sequences of 3-14 ops" % ("all sequences of length <= 4 and" if tier == "thorough" else ""),
                                "sample": {"case": wcases[0], "impl": wimpl[0], "model": wmodel[0]}}
    if wbad and not bad:
        c, o, fs = min(wbad, key=lambda x: len(x[0]))
        chk.violation("oracle-wait", "C17 violated on the real code: %s\nops: %s\n# observations: %s\n(%d failing sequences)" % (fs[0], c, o, len(wbad)))
        return chk.finish()
    if wdiffs and not bad:
        c, o, m = min(wdiffs, key=lambda x: len(x[0]))
        diffs.append(("wait-protocol " + c, " | " + o, "model: " + m))
    if wilog or wmlog:
        ilog = (ilog or "") + wilog
        mlog = (mlog or "") + wmlog
    if bad:
        c, o, fs = bad[0]
        chk.violation("oracle", "C17 violated on the real code: %s\ncase (len wchunk rchunk order early_dispatch nonblocking_before end): %s\n# result: %s\n(%d failing cases)" % (fs[0], c, o[:400], len(bad)))
    elif diffs or not st["proof"]["ok"] or ilog or mlog:
        why = []
        if not st["proof"]["ok"]:
            why.append("proof obligation no longer checks: %s" % st["proof"]["failed"])
        if diffs:
            c, o, m = diffs[0]
            why.append("correspondence: the model replay of %d runs disagrees; first `%s`: %s\n events: %s" % (len(diffs), c, m, o.split("|")[1][:300] if "|" in o else o))
        if ilog or mlog:
            why.append("runner: %s %s" % (ilog[:300], mlog[:300]))
        chk.violation("broken", "C17 is no longer shown to hold.\n" + "\n".join(why) + "\nall %d end-to-end cases passed their oracle: no failing input found\n%s" % (len(cases), diffs[0][0] if diffs else ""), nofail=True)
    return chk.finish()


def replay(path):
    if "dupadapt case" in open(path).read():
        import p_dupadapt
        return p_dupadapt.replay(path)
    if "close case:" in open(path).read():
        vlib.build_harness()
        out, _ = vlib.run_impl(["asyncclose"], ["x"])
        print(out[0] if out else "no output")
        return 0 if out and out[0].strip() == "wrote=3 closed=1 read=abc finished=1" else 1
    if "adaptkey case" in open(path).read():
        import p_adaptkey
        return p_adaptkey.replay(path, "C17")
    cases = [l.strip() for l in open(path) if len(l.split()) in (7, 9) and l.split()[0].isdigit() and l.split()[3] in ("rw", "wr")]
    cases += [l.split("): ", 1)[1].strip() for l in open(path) if l.startswith("case (") and "): " in l]
    wcases = [l[5:].strip() for l in open(path) if l.startswith("ops: ")]
    wcases += [l.strip() for l in open(path) if l.split() and all(w in WOPS for w in l.split())]
    vlib.build_harness()
    if wcases:
        vlib.build_model()
        wimpl, _ = vlib.run_impl(["asyncw"], wcases)
        wmodel, _ = vlib.run_model(["asyncw"], wcases)
        rc = 0
        for c, o, m in zip(wcases, wimpl, wmodel):
            fs = judge_wait(c, o)
            print("%s\n  impl : %s\n  model: %s\n  oracle: %s" % (c, o, m, fs or "ok"))
            if fs or o != m:
                rc = 1
        if not cases:
            return rc
    impl, _ = vlib.run_impl(["async"], cases)
    for c, o in zip(cases, impl):
        print(c, "->", o[:300])
    return 0 if all(o.startswith("made_nb=1 finished=1 bytes_ok=1 flags_ok=1 epoll_clean=1 readapt=1") for o in impl) else 1
