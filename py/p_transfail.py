"""A TransientSource whose child refuses one registration (C15): the failed insertion / enable() must leave the wrapper as it was - the same
call, repeated, succeeds and the child's events are delivered. End-to-end case of harness/src/m_transient.rs (transfail)."""
import vlib

WANT = "first_err=1 none_after_failure=0 retry_ok=1 delivered=1"
WHAT = {
    "first_err=0": "a registration the child refused was reported as a success",
    "none_after_failure=1": "after a registration its child refused, the TransientSource handed back is empty: the failed call destroyed the child",
    "retry_ok=0": "after a registration its child refused once, the same call fails again although the child now accepts",
    "delivered=0": "after a registration its child refused once, the repeated call answered Ok but the source never delivers an event again",
}


def stage(chk, prop):
    cases = ["insert", "enable"]
    out, _ = vlib.run_impl(["transfail"], cases, timeout=300)
    chk.cov["transient_child_refuses_registration"] = {"cases": cases, "results": out}
    for c, o in zip(cases, out):
        if o.strip() != WANT:
            why = [v for k, v in WHAT.items() if k in o] or ["unexpected result"]
            chk.violation("oracle-transfail", "%s violated on the real code: %s\ntransfail case (which call the child refuses first): %s\n# result: %s"
                          % (prop, why[0], c, o[:300]))
            return


def replay(path):
    txt = open(path).read()
    cases = [l.split(":", 1)[1].strip() for l in txt.split("\n") if l.startswith("transfail case")]
    vlib.build_harness()
    out, _ = vlib.run_impl(["transfail"], cases)
    for c, o in zip(cases, out):
        print(c, "->", o)
    return 0 if all(o.strip() == WANT for o in out) else 1
