"""C04  Channel: exactly-once in-order delivery, then exactly one Closed."""
import itertools
import random

import p_c03
import vlib


def wf(prog):
    mine = 1
    for o in prog:
        if mine <= 0:
            return False
        mine += {"s": 0, "b": 0, "c": 1, "x": -1}[o]
    return True


def nsteps(prog):
    return 2 * len(prog) + 1 + 2 * prog.count("b")


def gen_cases(tier, seed):
    rnd = random.Random(seed * 91 + 4)
    cases = []
    small = [p for n in range(1, 4) for p in map("".join, itertools.product("scx", repeat=n)) if wf(p)]
    per = 8 if tier == "quick" else 80
    pairs = list(itertools.product(small, repeat=2))
    rnd.shuffle(pairs)
    for a, b in pairs[: (50 if tier == "quick" else 400)]:
        bound = rnd.choice([-1, -1, 1, 2])
        nd = 2
        counts = [5 * nd, nsteps(a), nsteps(b)]
        for sch in p_c03.interleavings(counts, per, rnd):
            cases.append("%d %d | %s;%s | %s" % (bound, nd, a, b, "".join(map(str, sch))))
    # blocking SyncSender::send on bounded channels (b), mixed with try_send, clone and drop
    withb = [p for n in range(1, 4) for p in map("".join, itertools.product("sbx", repeat=n)) if wf(p) and "b" in p]
    for _ in range(70 if tier == "quick" else 1500):
        k = rnd.randint(1, 2)
        # one blocking sender per case: which of several blocked senders mpsc releases first is not modelled
        progs = [rnd.choice(withb)] + [rnd.choice(small) for _ in range(k - 1)]
        rnd.shuffle(progs)
        bound = rnd.choice([1, 1, 2])
        nd = rnd.randint(2, 4)
        pool = [0] * (7 * nd) + [i + 1 for i, p in enumerate(progs) for _ in range(nsteps(p))]
        rnd.shuffle(pool)
        cases.append("%d %d | %s | %s" % (bound, nd, ";".join(progs), "".join(map(str, pool))))
    # directed: the queue is filled, the blocking send has made its try_send and that ping, and the loop takes k steps (poll,
    # drain, try_recv ..., Empty) before the blocking mpsc send itself starts
    for bound in (1, 2):
        for tail in ("", "s", "b", "x"):
            for k in range(0, 7):
                prog = "s" * bound + "b" + tail
                sch = [1] * (2 * bound + 2) + [0] * k + [1] * 2
                cases.append("%d 3 | %s | %s" % (bound, prog, "".join(map(str, sch))))
                cases.append("%d 3 | %s;%s | %s" % (bound, "s" * bound, "b" + tail, "".join(map(str, [1] * (2 * bound) + [2, 2] + [0] * k + [2, 2]))))
    for _ in range(500 if tier == "quick" else 20000):
        k = rnd.randint(1, 3)
        progs = []
        for _ in range(k):
            while True:
                p = "".join(rnd.choice("ssscxx") for _ in range(rnd.randint(1, 7)))
                if wf(p):
                    break
            progs.append(p)
        bound = rnd.choice([-1, -1, 1, 2, 3, 8])
        nd = rnd.randint(1, 4)
        pool = [0] * (6 * nd) + [i + 1 for i, p in enumerate(progs) for _ in range(nsteps(p))]
        rnd.shuffle(pool)
        cases.append("%d %d | %s | %s" % (bound, nd, ";".join(progs), "".join(map(str, pool))))
    return cases


def strip(out):
    return " ".join(t.replace(":blocked", "") for t in out.split() if not t.startswith(("FULL", "DISC")))


def judge(case, out):
    head, progs, _ = [x.strip() for x in case.split("|")]
    progs = progs.split(";")
    toks = out.split()
    fails = []
    if "PANIC" in toks or "BAD" in toks or "TIMEOUT" in toks:
        return ["panic: %s" % out[-80:]]
    hang = "HANG" in toks
    has_b = any("b" in p for p in progs)
    if hang and not has_b:
        return ["hang: %s" % out[-80:]]
    toks = [t.replace(":blocked", "") for t in toks if t != "HANG"]
    # what each thread sent successfully: its k-th 's' has value t*100+k; a FULL/DISC token right after the send steps marks a failed one.
    delivered = [int(t[1:]) for t in toks if t[0] == "M"]
    closed = [i for i, t in enumerate(toks) if t == "CLOSED"]
    # per sender order and exactly once
    if len(set(delivered)) != len(delivered):
        fails.append("a message was delivered twice: %s" % delivered)
    per = {}
    for v in delivered:
        per.setdefault(v // 100, []).append(v)
    for t, vs in per.items():
        if vs != sorted(vs):
            fails.append("messages of sender thread %d were delivered out of send order: %s" % (t, vs))
        nsend = (progs[t - 1].count("s") + progs[t - 1].count("b")) if 0 < t <= len(progs) else 0
        if any(v % 100 >= nsend for v in vs):
            fails.append("a message that was never sent was delivered: %s" % vs)
    if len(closed) > 1:
        fails.append("Closed delivered %d times" % len(closed))
    if closed:
        if any(t[0] == "M" for t in toks[closed[0]:]):
            fails.append("a message was delivered after Closed")
    # enqueue order: the sequence of successful enqueue steps (111/112 not followed by FULL/DISC of that thread) must contain
    # the delivered sequence as a prefix (single FIFO)
    sent = []
    cnt = {}
    senders = len(progs)
    for i, t in enumerate(toks):
        if ":" in t:
            tid, yid = t.split(":")[0:2]
            if yid in ("111", "112"):
                k = cnt.get(tid, 0)
                cnt[tid] = k + 1
                sent.append((int(tid) * 100 + k, i))
            elif yid == "53":
                senders += 1
            elif yid == "52":
                senders -= 1
    failed = set()
    for i, t in enumerate(toks):
        if t.startswith(("FULL", "DISC")):
            tid = t[4:]
            # the most recent send step of that thread before this token failed
            prev = [v for v, j in sent if v // 100 == int(tid) and j < i and v not in failed]
            if prev:
                failed.add(prev[-1])
    # a blocking send must be delivered once it has returned Ok (OK<tid>); it may be delivered from its try_send step on; it
    # enqueues at an unobserved moment, so the global order of such cases is left to the comparison with the model
    blocking = {}
    for t_i, p in enumerate(progs):
        k = nbl = 0
        for o in p:
            if o in "sb":
                if o == "b":
                    nbl += 1
                    blocking[(t_i + 1) * 100 + k] = nbl
                k += 1
    oks = {}
    for t in toks:
        if t.startswith("OK"):
            oks[int(t[2:])] = oks.get(int(t[2:]), 0) + 1
    accepted = [v for v, _ in sent if v not in failed]
    ok_sent = [v for v in accepted if v not in blocking or blocking[v] <= oks.get(v // 100, 0)]
    if has_b:
        if any(v not in accepted for v in delivered):
            fails.append("a message that was never sent was delivered: %s, sent %s" % (delivered, accepted))
    elif delivered != ok_sent[:len(delivered)]:
        fails.append("delivery order %s is not a prefix of the enqueue order %s" % (delivered, ok_sent))
    # completeness: after the last step of every sender the loop still made 4 dispatches
    last_sender_step = max([i for i, t in enumerate(toks) if ":" in t and not t.startswith("0:")] + [-1])
    polls_after = len([1 for i, t in enumerate(toks) if t == "0:132" and i > last_sender_step])
    if hang and polls_after >= 3:
        fails.append("a sender stays blocked in SyncSender::send although the loop kept dispatching after the last sender step")
    if polls_after >= 3:
        missing = [v for v in ok_sent if v not in delivered]
        if missing:
            fails.append("stranded: %d of %d successfully sent messages were never delivered although the loop kept dispatching: %s" % (len(missing), len(ok_sent), missing))
        if senders == 0 and not closed:
            fails.append("no Closed event although every sender was dropped and the loop kept dispatching")
    if closed and senders != 0:
        fails.append("Closed delivered while %d senders are alive" % senders)
    return fails


SEQ_PROFILES = [(1, {"kinds": {"chan": 6, "ping": 1, "comp": 1, "timer": 0.5}, "n_setup": (2, 4), "script_prob": 0.9, "share_fd_prob": 0.0, "err_ret_prob": 0.0})]


def main(tier, seed):
    chk = vlib.Check("C04", tier, seed)
    st = vlib.standard_front(chk)
    chk.assumptions = ["granularity: one mpsc enqueue/try_send, sender-count change, eventfd write/read, poll or try_recv per scheduler step",
                       "std::sync::mpsc is an assumed linearizable FIFO with the usual disconnect rule; validated by these runs",
                       "covers Sender::send on channel(), SyncSender::try_send and the blocking SyncSender::send on sync_channel(n>=1); sync_channel(0): see known finding F9",
                       "a sender blocked on the full queue is detected from /proc task state and waited for after every step of another thread (it continues as soon as there is room: mpsc's contract)",
                       "batch limits at and above 1024 are exercised sequentially (BulkSend) by the sequential checks"]
    if not (st.get("harness_ok") and st.get("model_ok")):
        chk.violation("build", "correspondence broken: build failed\n%s\n%s" % (st.get("harness_log", "")[-2000:], st.get("model_log", "")[-2000:]), nofail=True)
        chk.cov.update({"evaluations": 0, "distinct_nontrivial": 0})
        return chk.finish()
    cases = gen_cases(tier, seed)
    # reuse the sharded runner of C03 with this harness sub-command
    import subprocess
    from concurrent.futures import ThreadPoolExecutor
    n = 12
    shards = [cases[i::n] for i in range(n)]
    with ThreadPoolExecutor(max_workers=n) as ex:
        outs = list(ex.map(lambda sh: p_c03.run_batch(vlib.HARNESS, "cchan", sh) if sh else [], shards))
    impl = [None] * len(cases)
    for k, o in enumerate(outs):
        for j, line in enumerate(o):
            impl[k + j * n] = line
    model, mlog = vlib.run_model(["cchan"], cases)
    diffs, bad = [], []
    for c, i, m in zip(cases, impl, model):
        if strip(i) != strip(m) or sorted(t for t in i.split() if t[:4] in ("FULL", "DISC")) != sorted(t for t in m.split() if t[:4] in ("FULL", "DISC")):
            diffs.append((c, i, m))
        fs = judge(c, i)
        if fs:
            bad.append((c, i, fs))
    chk.cov.update({
        "evaluations": len(cases), "distinct_nontrivial": len(set(impl)),
        "traces_validated_against_impl": len(cases) - len(diffs),
        "rule": "2 sender threads x small programs over send/clone/drop, channel() and sync_channel(1|2), with sampled interleavings + 1-3 threads with "
                "random programs, bounds {none,1,2,3,8} and random schedules; a case is one schedule on real threads",
        "samples": [{"case": c, "impl": i, "model": m} for c, i, m in list(zip(cases, impl, model))[:2]],
        "model_impl_disagreements": len(diffs),
    })
    k9 = [x for x in vlib.load_known() if x.get("id") == "F9" and x.get("status") == "known"]
    if k9 and f9_reproduces():
        chk.known("F9", "F9: " + k9[0]["what"])
    # sync_channel(0) outside F9's class: the sender is parked inside the blocking send (its try_send has returned Full and pinged)
    # BEFORE the loop starts dispatching - the rendezvous must then complete
    try:
        pout = p_c03.run_batch(vlib.HARNESS, "cchan0", ["parked"], timeout=90)
    except Exception as e:      # noqa
        pout = ["TIMEOUT %s" % e]
    chk.cov["rendezvous_sender_parked_first"] = pout[0][:300] if pout else "no output"
    if not pout or "DELIVERED" not in pout[0]:
        chk.violation("oracle-rendezvous", "C04 violated on the real code: sync_channel(0): a blocking send() that was already parked in the channel when the loop "
                      "started dispatching (its try_send had returned Full) is never received: the message is not delivered and the sender stays blocked "
                      "although the loop keeps dispatching\nrendezvous case: parked\n# executed steps and observations: %s" % (pout[0][:400] if pout else ""))
    # the only sender dies with its thread (panic): Closed must still arrive, once
    try:
        dout = p_c03.run_batch(vlib.HARNESS, "cchan0", ["panicdrop"], timeout=90)
    except Exception as e:      # noqa
        dout = ["TIMEOUT %s" % e]
    chk.cov["sender_dropped_by_panicking_thread"] = dout[0][:200] if dout else "no output"
    if not dout or dout[0].strip() != "M1 M2 CLOSED closed=1":
        chk.violation("oracle-panicdrop", "C04 violated on the real code: the only sender was dropped by a thread that panicked (after its two messages had been "
                      "delivered): the loop must deliver exactly one Closed afterwards\nsender case: panicdrop\n# observations: %s" % (dout[0][:300] if dout else ""))
    if bad:
        c, i, fs = min(bad, key=lambda x: len(x[0]))
        chk.violation("oracle", "C04 violated on the real code: %s\n%s\n# executed steps and observations: %s\n(%d failing schedules)" % (fs[0], c, i, len(bad)))
    elif diffs or not st["proof"]["ok"] or mlog:
        why = []
        if not st["proof"]["ok"]:
            why.append("proof obligation no longer checks: %s" % st["proof"]["failed"])
        if diffs:
            c, i, m = min(diffs, key=lambda x: len(x[0]))
            why.append("correspondence differs on %d schedules; shortest: `%s`\n impl : %s\n model: %s" % (len(diffs), c, i, m))
        if mlog:
            why.append("runner: %s" % mlog[:300])
        chk.violation("broken", "C04 is no longer shown to hold.\n" + "\n".join(why) +
                      "\nthe oracle judged all %d schedules of this run on real threads: no failing input found\n%s" % (len(cases), diffs[0][0] if diffs else ""), nofail=True)
    # ---- second stage: single-threaded histories on the sequential loop model (bounds up to 2048, queues beyond the 1024 batch
    # limit in the corpus scenarios S_C04b_*), judged by the C04 rules of py/oracles.py
    import oracles
    import p_seqprops
    import seqcheck
    return seqcheck.run_seq_check("C04", tier, seed, SEQ_PROFILES, oracles.oracle_for(["C04"]), 400, 10000,
                                  ["second stage: sequential scenarios rich in channels (send/try_send, sender clones and drops, also from callbacks); the corpus "
                                   "holds queues of 1025 and 1500 messages on sync_channel(1025 / 2048)"],
                                  known_classifier=p_seqprops.classify, stage_of=(chk, st))



def f9_reproduces():
    """the recorded witness of F9 (sync_channel(0), blocking send parked between its try_send ping and the rendezvous)"""
    try:
        out = p_c03.run_batch(vlib.HARNESS, "cchan0", ["f9"], timeout=90)
        return out and "STUCK" in out[0]
    except Exception:
        return False


def replay(path):
    if "sender case: panicdrop" in open(path).read():
        vlib.build_harness()
        out = p_c03.run_batch(vlib.HARNESS, "cchan0", ["panicdrop"], timeout=90)
        print(out[0] if out else "no output")
        return 0 if out and out[0].strip() == "M1 M2 CLOSED closed=1" else 1
    if "rendezvous case: parked" in open(path).read():
        vlib.build_harness()
        out = p_c03.run_batch(vlib.HARNESS, "cchan0", ["parked"], timeout=90)
        print(out[0] if out else "no output")
        return 0 if out and "DELIVERED" in out[0] else 1
    if "=== " in open(path).read():
        import oracles
        import seqcheck
        return seqcheck.replay("C04", path, oracles.oracle_for(["C04"]))
    cases = [l.strip() for l in open(path) if l.count("|") == 2 and len(l.split("|")[0].split()) == 2]
    vlib.build_harness()
    vlib.build_model()
    impl = p_c03.run_batch(vlib.HARNESS, "cchan", cases)
    model, _ = vlib.run_model(["cchan"], cases)
    rc = 0
    for c, i, m in zip(cases, impl, model):
        print("%s\n  impl : %s\n  model: %s\n  oracle: %s" % (c, i, m, judge(c, i) or "ok"))
        if strip(i) != strip(m) or judge(c, i):
            rc = 1
    return rc
