"""C03  Ping wake-ups are never lost across threads; they coalesce; close is clean."""
import itertools
import random
import subprocess
from concurrent.futures import ThreadPoolExecutor

import vlib


def wf(prog):
    mine = 1
    for o in prog:
        if mine <= 0:
            return False
        mine += {"p": 0, "c": 1, "x": -1}[o]
    return True


def steps_of(prog, last_possible=True):
    """upper bound of scheduler steps of a pinger program"""
    return len(prog) + 1


def interleavings(counts, limit, rnd):
    """all (or a sample of) schedules where thread i appears counts[i] times"""
    total = sum(counts)
    pool = []
    for i, c in enumerate(counts):
        pool += [i] * c
    perms = set()
    if total <= 9:
        for p in set(itertools.permutations(pool)):
            perms.add(p)
            if len(perms) >= limit * 4:
                break
        perms = list(perms)
        rnd.shuffle(perms)
        return perms[:limit]
    out = set()
    for _ in range(limit * 3):
        rnd.shuffle(pool)
        out.add(tuple(pool))
        if len(out) >= limit:
            break
    return list(out)


def gen_cases(tier, seed):
    rnd = random.Random(seed * 77 + 3)
    cases = []
    small_progs = [p for n in range(1, 4) for p in map("".join, itertools.product("pcx", repeat=n)) if wf(p)]
    per = 12 if tier == "quick" else 120
    # two pinger threads, small programs, 2 dispatches: many interleavings each
    pairs = list(itertools.product(small_progs, repeat=2))
    rnd.shuffle(pairs)
    for a, b in pairs[: (60 if tier == "quick" else 400)]:
        nd = 2
        counts = [2 * nd, len(a) + 1, len(b) + 1]
        for sch in interleavings(counts, per, rnd):
            cases.append("%d | %s;%s | %s" % (nd, a, b, "".join(map(str, sch))))
    # one to four threads, longer random programs, random schedules
    for _ in range(600 if tier == "quick" else 20000):
        k = rnd.randint(1, 4)
        progs = []
        for _ in range(k):
            while True:
                p = "".join(rnd.choice("pppcxx") for _ in range(rnd.randint(1, 6)))
                if wf(p):
                    break
            progs.append(p)
        nd = rnd.randint(1, 4)
        cbp = rnd.choice([0, 0, 1, 2])     # callbacks that ping their own source (other threads may ping meanwhile)
        pool = [0] * (3 * nd + cbp) + [i + 1 for i, p in enumerate(progs) for _ in range(len(p) + 1)]
        rnd.shuffle(pool)
        cases.append("%d %d | %s | %s" % (nd, cbp, ";".join(progs), "".join(map(str, pool))))
    return cases


def judge(case, out):
    nd, progs, _ = [x.strip() for x in case.split("|")]
    progs = progs.split(";")
    cb_owns_handle = len(nd.split()) > 1 and int(nd.split()[1]) > 0
    toks = out.split()
    fails = []
    if "HANG" in toks or "PANIC" in toks or "BAD" in toks or "TIMEOUT" in toks:
        return ["hang/panic: %s" % out[-60:]]
    handles = len(progs) + (1 if cb_owns_handle else 0)
    pings_since_drain = 0
    written = 0
    closed_written = 0
    removed = False
    expect_cb = False
    last_was_drain = False
    i = 0
    pending_after = []  # pings written and not yet followed by a callback
    returned_pings = []
    polls_after_close = 0
    polls_after_ping = 0
    for t in toks:
        if t == "CB":
            if not last_was_drain:
                fails.append("callback outside a drain")
            elif not expect_cb:
                fails.append("spurious: a callback without any ping since the previous drain")
            if removed:
                fails.append("callback after the source removed itself")
            expect_cb = False
            pending_after = []
            returned_pings = []
            continue
        if t[0] == "P" and t[1:].isdigit():
            # a ping() call returned: a callback must start after it began (if the loop keeps dispatching)
            returned_pings.append(t)
            polls_after_ping = 0
            continue
        if t == "RM":
            if not closed_written:
                fails.append("removed: the source left the loop although handles are alive")
            removed = True
            continue
        if last_was_drain and expect_cb:
            fails.append("lost: a drain that followed %d ping(s) did not call back" % pings_since_drain)
            expect_cb = False
        last_was_drain = False
        tid, yid = t.split(":")[0:2]
        if yid == "132":
            if closed_written:
                polls_after_close += 1
            if pending_after or returned_pings:
                polls_after_ping += 1
        if yid == "102":
            polls_after_ping = 0
            pings_since_drain += 1
            written += 1
            pending_after.append(written)
            if handles <= 0:
                fails.append("a ping was written without a live handle")
        elif yid == "51":
            handles += 1
        elif yid == "50":
            handles -= 1
        elif yid == "101":
            closed_written += 1
            if handles != 0:
                fails.append("close marker written while %d handles are alive" % handles)
            if closed_written > 1:
                fails.append("close marker written %d times" % closed_written)
        elif yid == "103":
            if removed:
                fails.append("spinning: the loop still drains after the source removed itself")
            expect_cb = pings_since_drain > 0
            pings_since_drain = 0
            last_was_drain = True
    if last_was_drain and expect_cb:
        fails.append("lost: the last drain followed ping(s) but did not call back")
    if returned_pings and not removed and polls_after_ping > 0:
        fails.append("lost: ping() returned (%s) but no callback started afterwards although the loop kept dispatching" % returned_pings)
    if pending_after and not removed and polls_after_ping > 0:
        fails.append("lost: %d completed ping(s) were never followed by a callback although the loop kept dispatching" % len(pending_after))
    if handles == 0 and not closed_written:
        fails.append("no close marker although every handle was dropped")
    if closed_written and not removed and polls_after_close > 0:
        fails.append("the source stayed in the loop after the close marker")
    return fails


def run_batch(binary, sub, cases, chunk=150, timeout=300):
    """one process per `chunk` cases: the scenarios leave their (forgotten) loops, eventfds and threads behind, so a long-lived
    process would run out of file descriptors"""
    res = []
    for i in range(0, len(cases), chunk):
        part = cases[i:i + chunk]
        try:
            p = subprocess.run([binary, sub], input="\n".join(part) + "\n", stdout=subprocess.PIPE, stderr=subprocess.PIPE, text=True, timeout=timeout)
            out = p.stdout.split("\n")[:len(part)]
        except subprocess.TimeoutExpired as e:
            out = ((e.stdout or b"").decode(errors="replace") if isinstance(e.stdout, bytes) else (e.stdout or "")).split("\n")
            out = [o for o in out if o][:len(part)]
            res += out + ["TIMEOUT"] * (len(part) - len(out))
            continue
        res += out + ["PANIC"] * (len(part) - len(out))
    return res


def run_impl(cases):
    # the scheduler is process-global: one process per shard
    n = 12
    shards = [cases[i::n] for i in range(n)]
    with ThreadPoolExecutor(max_workers=n) as ex:
        outs = list(ex.map(lambda sh: run_batch(vlib.HARNESS, "cping", sh) if sh else [], shards))
    res = [None] * len(cases)
    for k, o in enumerate(outs):
        for j, line in enumerate(o):
            res[k + j * n] = line
    return res


SEQ_PROFILES = [(1, {"kinds": {"ping": 6, "comp": 1, "timer": 0.5, "chan": 1}, "n_setup": (2, 4), "script_prob": 0.95, "script_len": (1, 4),
                     "share_fd_prob": 0.0, "err_ret_prob": 0.0, "ping_cb_prob": 0.7})]


def main(tier, seed):
    chk = vlib.Check("C03", tier, seed)
    st = vlib.standard_front(chk)
    chk.assumptions = ["granularity: one eventfd write / read, Arc count change or poll per scheduler step (yield points of cfg(calloop_verif))",
                       "real OS threads under a baton scheduler; eventfd atomicity and polling's level-triggered contract are the environment model",
                       "fewer than 2^62 undrained pings (the EAGAIN branch is not modelled)",
                       "single-threaded ping/clone/drop/disable/enable histories are exercised by the sequential checks (C01/C07 profiles)"]
    if not (st.get("harness_ok") and st.get("model_ok")):
        chk.violation("build", "correspondence broken: build failed\n%s\n%s" % (st.get("harness_log", "")[-2000:], st.get("model_log", "")[-2000:]), nofail=True)
        chk.cov.update({"evaluations": 0, "distinct_nontrivial": 0})
        return chk.finish()
    cases = gen_cases(tier, seed)
    impl = run_impl(cases)
    model, mlog = vlib.run_model(["cping"], cases)
    diffs, bad = [], []
    for c, i, m in zip(cases, impl, model):
        if i != m:
            diffs.append((c, i, m))
        fs = judge(c, i)
        if fs:
            bad.append((c, i, fs))
    chk.cov.update({
        "evaluations": len(cases), "distinct_nontrivial": len(set(impl)),
        "traces_validated_against_impl": len(cases) - len(diffs),
        "rule": "2 pinger threads x small programs over ping/clone/drop x 2 dispatches with up to %d interleavings each (all of them when <= 9 steps) + "
                "1-4 threads with random programs and random schedules; a case is one schedule run on real threads; distinct by step/observation trace" % (12 if tier == "quick" else 120),
        "samples": [{"case": c, "impl": i, "model": m} for c, i, m in list(zip(cases, impl, model))[:2]],
        "model_impl_disagreements": len(diffs),
    })
    # the last handle dies with its thread
    try:
        pout = run_batch(vlib.HARNESS, "cpingpanic", ["x"], timeout=60)
    except Exception as e:      # noqa
        pout = ["TIMEOUT %s" % e]
    chk.cov["last_handle_dropped_by_panicking_thread"] = pout[0][:100] if pout else "no output"
    if not pout or pout[0].strip() != "callbacks=1 removed=1":
        chk.violation("oracle-panicdrop", "C03 violated on the real code: the last Ping handle was dropped by a thread that pinged and then panicked: the ping must be "
                      "delivered once and the source must remove itself\nping case: panicdrop\n# result: %s" % (pout[0][:200] if pout else ""))
    # free-running race search below the granularity of the scheduler: the last two handles dropped by two threads at the same instant
    rounds = 4000 if tier == "quick" else 40000
    try:
        sout = run_batch(vlib.HARNESS, "cpingstress", [str(rounds)], timeout=600)
    except Exception as e:      # noqa
        sout = ["TIMEOUT %s" % e]
    chk.cov["concurrent_last_drops_race_search"] = {"rounds": rounds, "result": sout[0][:200] if sout else "no output",
                                                     "note": "a search on free-running threads (no scheduler, no model): it can only find a failing schedule, never show there is none"}
    if not sout or sout[0].strip() != "rounds=%d lost_ping=- extra_callback=- not_removed=-" % rounds:
        o = sout[0] if sout else ""
        what = ("every handle was dropped (two threads, at the same instant) but the source never removed itself from the loop" if "not_removed=-" not in o and "not_removed=" in o
                else "the ping that had returned before the handles were dropped was never delivered" if "lost_ping=-" not in o and "lost_ping=" in o
                else "the callback ran without a ping" if "extra_callback=-" not in o and "extra_callback=" in o else "no result")
        chk.violation("oracle-stress", "C03 violated on the real code: %s\nstress case: %d\n# result: %s" % (what, rounds, o[:300]))
    if bad:
        c, i, fs = min(bad, key=lambda x: len(x[0]))
        chk.violation("oracle", "C03 violated on the real code: %s\n%s\n# executed steps (thread:yield id) and observations: %s\n(%d failing schedules)" % (fs[0], c, i, len(bad)))
    elif diffs or not st["proof"]["ok"] or mlog:
        why = []
        if not st["proof"]["ok"]:
            why.append("proof obligation no longer checks: %s" % st["proof"]["failed"])
        if diffs:
            c, i, m = min(diffs, key=lambda x: len(x[0]))
            why.append("correspondence differs on %d schedules; shortest: `%s`\n impl : %s\n model: %s" % (len(diffs), c, i, m))
        if mlog:
            why.append("runner: %s" % mlog[:300])
        chk.violation("broken", "C03 is no longer shown to hold.\n" + "\n".join(why) +
                      "\nthe oracle judged all %d schedules of this run on real threads: no failing input found\n%s" % (len(cases), diffs[0][0] if diffs else ""), nofail=True)
    # ---- second stage: single-threaded histories of ping / clone / drop (also from inside callbacks) / disable / enable /
    # dispatch on the sequential loop model, judged by the C03 rules of py/oracles.py
    import oracles
    import p_seqprops
    import seqcheck
    return seqcheck.run_seq_check("C03", tier, seed, SEQ_PROFILES, oracles.oracle_for(["C03"]), 500, 12000,
                                  ["second stage: sequential scenarios rich in ping sources whose callbacks ping, clone and drop handles (py/gen_seq.py)"],
                                  known_classifier=p_seqprops.classify, stage_of=(chk, st))



def replay(path):
    if "ping case: panicdrop" in open(path).read():
        vlib.build_harness()
        out = run_batch(vlib.HARNESS, "cpingpanic", ["x"], timeout=60)
        print(out[0] if out else "no output")
        return 0 if out and out[0].strip() == "callbacks=1 removed=1" else 1
    if "stress case:" in open(path).read():
        rounds = [l.split(":", 1)[1].strip() for l in open(path) if l.startswith("stress case:")][0]
        vlib.build_harness()
        out = run_batch(vlib.HARNESS, "cpingstress", [rounds], timeout=600)
        print(out[0] if out else "no output")
        return 0 if out and out[0].strip() == "rounds=%s lost_ping=- extra_callback=- not_removed=-" % rounds else 1
    if "=== " in open(path).read():
        import oracles
        import seqcheck
        return seqcheck.replay("C03", path, oracles.oracle_for(["C03"]))
    cases = [l.strip() for l in open(path) if l.count("|") == 2 and l.split("|")[0].strip().replace(" ", "").isdigit()]
    vlib.build_harness()
    vlib.build_model()
    impl = run_batch(vlib.HARNESS, "cping", cases)
    model, _ = vlib.run_model(["cping"], cases)
    rc = 0
    for c, i, m in zip(cases, impl, model):
        print("%s\n  impl : %s\n  model: %s\n  oracle: %s" % (c, i, m, judge(c, i) or "ok"))
        if i != m or judge(c, i):
            rc = 1
    return rc
