"""A custom EventSource that registers its fds with the poller directly and calls back for every event it is handed: only the loop's own
generation-checked lookup per event keeps a removed source from being called again (C06, C01, C08). End-to-end cases of
harness/src/m_rawsrc.rs (rawsrc), judged on the implementation alone."""
import vlib

CASES = ["self_remove", "post_remove", "other_remove"]


def judge(case, out):
    if "calls=" not in out:
        return "harness panic / no result: %s" % out[:80]
    kv = dict(x.split("=", 1) for x in out.split())
    first = [int(x) for x in kv["calls"].split(",")]
    later = [int(x) for x in kv["later"].split(",")]
    if case in ("self_remove", "post_remove"):
        how = "called remove() on its own token" if case == "self_remove" else "answered PostAction::Remove"
        if first[0] != 1:
            return ("a source with two ready fds %s in the callback of its first event and was called back %d times in that dispatch: the "
                    "callback ran again after the source had removed itself" % (how, first[0]))
        if later[0] != 1:
            return "a source that %s was called back again in a later dispatch (%d calls in all)" % (how, later[0])
        return None
    if sorted(first) != [0, 1]:
        return ("two sources were ready in one batch and the callback of the first removed the other; callback counts after that dispatch: %s "
                "- the removed source's callback ran after remove() had returned" % first)
    gone = first.index(0)
    if later[gone] != 0:
        return "the source removed by the other one's callback was called back in a later dispatch (%d calls)" % later[gone]
    return None


def stage(chk, prop):
    out, _ = vlib.run_impl(["rawsrc"], CASES, timeout=300)
    chk.cov["custom_source_without_generic"] = {"cases": CASES, "results": out,
                                                "rule": "a source that calls back for every event it is handed: removed by itself (remove(), PostAction::Remove) on the "
                                                        "first of two events of a batch, or by another source earlier in the batch - never called again"}
    for c, o in zip(CASES, out):
        why = judge(c, o.strip())
        if why:
            chk.violation("oracle-rawsrc", "%s violated on the real code: %s\nrawsrc case: %s\n# result: %s" % (prop, why, c, o[:300]))
            return


def extra_front_for(prop):
    def f(chk, st):
        stage(chk, prop)
    return f


def replay(path):
    txt = open(path).read()
    cases = [l.split(":", 1)[1].strip() for l in txt.split("\n") if l.startswith("rawsrc case")]
    vlib.build_harness()
    out, _ = vlib.run_impl(["rawsrc"], cases)
    rc = 0
    for c, o in zip(cases, out):
        why = judge(c, o.strip())
        print(c, "->", o, "" if not why else "  FAILS: " + why)
        rc = rc or (1 if why else 0)
    return rc
