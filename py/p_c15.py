"""C15 (decided on the sequential loop model; see p_seqprops.py, oracles.py, coq/props/C15.v)"""
import os
import subprocess
import tempfile

import oracles
import p_seqprops
import seqcheck
import seqlib
import vlib

PROPS = ["C15"]
PROFILES = [(3, {"share_fd_prob": 0.45, "err_ret_prob": 0.25, "lc_prob": 0.5, "stats_prob": 0.9, "epoll_prob": 0.9}), (1, {})]


def run_impl_only(text):
    d = tempfile.mkdtemp(prefix="cvcf")
    sp = os.path.join(d, "s.scn")
    open(sp, "w").write(text)
    try:
        p = subprocess.run([vlib.HARNESS, "seq", sp], stdout=subprocess.PIPE, stderr=subprocess.PIPE, text=True, timeout=120)
        tr = seqlib.split_traces(p.stdout)
        return list(tr.values())[0] if tr else []
    finally:
        try:
            os.remove(sp)
            os.rmdir(d)
        except OSError:
            pass


def others_view(trace, h, other=None):
    """what the rest of the loop shows: callbacks of every other source, and the result of every dispatch - command by command, and only
    as long as source h ITSELF is called in the same way in the run it is compared with (`other`): the property lets a failed call affect
    its own source (a failed disable may leave it half disabled), and once that source's own callbacks or hooks differ, an error it
    returns - or no longer returns - legitimately changes the result of the dispatch and what is left of its batch"""
    def segments(tr):
        segs, cur = [], []
        for l in tr:
            if l == "17":
                segs.append(cur)
                cur = []
            else:
                cur.append(l)
        segs.append(cur)
        return segs

    def own(seg):
        return [l for l in seg if l.split()[0] in ("2", "3", "4") and l.split()[1] == str(h)]

    mine, theirs = segments(trace), segments(other) if other is not None else None
    out = []
    for i, seg in enumerate(mine):
        if theirs is not None and (i >= len(theirs) or own(seg) != own(theirs[i])):
            break
        for l in seg:
            ws = l.split()
            if (ws[0] == "2" and ws[1] != str(h)) or ws[0] in ("6", "10"):
                out.append(l)
    return out


def counterfactual(text, impl):
    """`as if the call had not been made` / `without affecting any other source`, tested literally: a top-level enable, update,
    disable or insert that returned an IO error is deleted from the scenario, the real code is run again, and every OTHER
    source must behave identically (callbacks, dispatch results, panics). Sources with several sub-sources are left out:
    their partial registration is the recorded finding F11."""
    lines = text.strip("\n").split("\n")
    cmd_idx = [i for i, l in enumerate(lines) if l.startswith(("C ", "D ", "T", "E"))]
    spec = {}
    for l in lines:
        ws = l.split()
        if len(ws) > 3 and ws[1] == "insert":
            spec[ws[2]] = ws
    k = -1
    for l in impl:
        if l == "17":
            k += 1
            continue
        ws = l.split()
        if ws[0] == "1" and ws[1] in ("1", "3", "4", "5") and len(ws) > 3 and ws[3] == "2" and 0 <= k < len(cmd_idx):
            cl = lines[cmd_idx[k]].split()
            if cl[0] != "C" or cl[1] not in ("insert", "disable", "enable", "update") or cl[2] != ws[2]:
                continue
            sp = spec.get(ws[2])
            if sp is None or (sp[3] == "comp" and int(sp[5]) != 1) or sp[3] == "compt":
                continue
            variant = "\n".join(lines[:cmd_idx[k]] + lines[cmd_idx[k] + 1:]) + "\n"
            alt = run_impl_only(variant)
            # the variant has one top-level command less: re-align by dropping the CMD marker of the deleted command from the original
            impl2, seen = [], -1
            for l in impl:
                if l == "17":
                    seen += 1
                    if seen == k:
                        continue
                impl2.append(l)
            a, b = others_view(impl2, ws[2], alt), others_view(alt, ws[2], impl2)
            if a != b:
                n = next((i for i in range(max(len(a), len(b))) if i >= len(a) or i >= len(b) or a[i] != b[i]), 0)
                return ["C15/failed-op-affects-others: `%s` returned an IO error, yet the other sources behave differently than without that call: "
                        "with it `%s`, without it `%s` (difference %d of their callback/dispatch lines)"
                        % (" ".join(cl[1:]), seqlib.pretty(a[n]) if n < len(a) else "<end>", seqlib.pretty(b[n]) if n < len(b) else "<end>", n)]
            return []      # one counterfactual per scenario
    return []


def oracle(text, impl):
    base = oracles.oracle_for(PROPS)
    return base(text, impl) + counterfactual(text, impl)


def extra(chk, st):
    import p_c16
    import p_dupadapt
    p_dupadapt.stage(chk, "C15")
    import p_transfail
    p_transfail.stage(chk, "C15")
    import p_closedfd
    p_closedfd.stage(chk, "C15")
    # failed registrations at the level of Generic (shared fds -> EEXIST): nothing changes, and the registration can be retried
    p_c16.genlife(chk, st, prop="C15")


def main(tier, seed):
    return seqcheck.run_seq_check("C15", tier, seed, PROFILES, oracle, 1200, 30000, p_seqprops.ASSUME + [
        "counterfactual stage: a top-level insert/enable/update/disable that returned an IO error is deleted and the real code re-run; every other "
        "source must behave identically (single-sub-source sources only; partial registration of larger composites is finding F11)"],
        known_classifier=p_seqprops.classify, extra_front=extra)


def replay(path):
    if "genlife case:" in open(path).read():
        import p_c16
        return p_c16.replay(path)
    if "dupadapt case" in open(path).read():
        import p_dupadapt
        return p_dupadapt.replay(path)
    if "closedfd case" in open(path).read():
        import p_closedfd
        return p_closedfd.replay(path)
    if "transfail case" in open(path).read():
        import p_transfail
        return p_transfail.replay(path)
    return seqcheck.replay("C15", path, oracle)
