"""C15 (decided on the sequential loop model; see p_seqprops.py, oracles.py, coq/props/C15.v)"""
import p_seqprops

PROPS = ["C15"]
PROFILES = [(3, {"share_fd_prob": 0.45, "err_ret_prob": 0.25, "lc_prob": 0.5, "stats_prob": 0.9, "epoll_prob": 0.9}), (1, {})]


def main(tier, seed):
    return p_seqprops.run("C15", tier, seed, PROFILES, props=PROPS)


def replay(path):
    return p_seqprops.replay("C15", path, props=PROPS)
