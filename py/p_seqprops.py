"""Shared definition of the checks decided on the sequential loop model."""
import oracles
import seqcheck

ASSUME = ["scenario language of DESIGN.md 2.3: sources = composite of Generic<eventfd> sub-sources (optionally with lifecycle events), PingSource, Timer, Channel; idles",
          "epoll/eventfd/BinaryHeap behaviour is the environment model of coq/theories/Env.v (validated by the same runs)",
          "virtual clock (cfg(calloop_verif) offset in Poll::poll): deadlines and phases are exact, no sleeping",
          "oracles are conservative: a handle whose state became uncertain (failed (re/un)registration, shared fds) is no longer judged"]

# failure kinds that are recorded known findings (DESIGN.md section 5): kind-prefix -> finding id
KNOWN_KINDS = {
    "C05/lost-in-failed-dispatch": "F4",
    "C15/lost-in-failed-dispatch": "F4",
    "C02/lost-in-failed-dispatch": "F4",
    "C15/leaked-registration": "F11",
    "C05/early-rearmed-in-batch": "F5", "C05/early-after-rearm-in-batch": "F5", "C05/residue-after-rearm-in-batch": "F5",
    "C05/wrong-deadline-rearmed-in-batch": "F5", "C05/wrong-deadline-after-rearm-in-batch": "F5",
    "C05/fired-unarmed-rearmed-in-batch": "F5", "C05/fired-unarmed-after-rearm-in-batch": "F5",
}


def classify(text, trace, failure):
    return KNOWN_KINDS.get(failure.split(":")[0])


def run(prop, tier, seed, profiles, n_quick=1200, n_thorough=30000, props=None, extra_front=None):
    return seqcheck.run_seq_check(prop, tier, seed, profiles, oracles.oracle_for(props or [prop]), n_quick, n_thorough, ASSUME,
                                  known_classifier=classify, extra_front=extra_front)


def replay(prop, path, props=None):
    return seqcheck.replay(prop, path, oracles.oracle_for(props or [prop]))
