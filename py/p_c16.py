"""C16 (decided on the sequential loop model; see p_seqprops.py, oracles.py, coq/props/C16.v)"""
import p_seqprops

PROPS = ["C16"]
PROFILES = [(3, {"epoll_prob": 1.0, "dropdisp_prob": 0.12, "share_fd_prob": 0.1, "kinds": {"comp": 5, "ping": 2, "timer": 0.5, "chan": 2}}), (1, {})]


def main(tier, seed):
    return p_seqprops.run("C16", tier, seed, PROFILES, props=PROPS)


def replay(path):
    return p_seqprops.replay("C16", path, props=PROPS)
