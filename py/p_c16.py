"""C16 (decided on the sequential loop model; see p_seqprops.py, oracles.py, coq/props/C16.v)"""
import p_seqprops

PROPS = ["C16"]
PROFILES = [(3, {"epoll_prob": 1.0, "dropdisp_prob": 0.12, "share_fd_prob": 0.1, "kinds": {"comp": 5, "ping": 2, "timer": 0.5, "chan": 2}}), (1, {})]


def async_adapters(chk, st):
    """live Async adapters are part of C16: after drop / into_inner the fd must have left the poller and be insertable again
    (end-to-end runs of harness/src/m_async.rs on a real socket pair; the kernel's table is read from /proc)"""
    import p_c17
    import vlib
    cases = [c for c in p_c17.gen_cases("quick", 1) if int(c.split()[0]) <= 70000][:24]
    impl, ilog = vlib.run_impl(["async"], cases, timeout=600)
    bad = [(c, o) for c, o in zip(cases, impl) if "epoll_clean=1" not in o or "readapt=1" not in o]
    chk.cov["async_adapter_cases"] = {"cases": len(cases), "failing": len(bad),
                                      "rule": "payload/chunk/order/drop|into_inner matrix of the C17 harness; checked here: fd gone from /proc/self/fdinfo/<epfd> and re-adaptable"}
    if bad:
        c, o = bad[0]
        what = "the fd of a dropped / unwrapped Async adapter is still registered with the OS poller" if "epoll_clean=0" in o else \
               "the fd released by into_inner could not be adapted again"
        chk.violation("oracle-async", "C16 violated on the real code: %s\ncase (len wchunk rchunk order early_dispatch nonblocking_before end): %s\n# result: %s\n(%d failing cases)"
                      % (what, c, o[:300], len(bad)))


def main(tier, seed):
    return p_seqprops.run("C16", tier, seed, PROFILES, props=PROPS, extra_front=async_adapters)


def replay(path):
    txt = open(path).read()
    if "case (len wchunk" in txt:
        import vlib
        cases = [l.split(":", 1)[1].strip() for l in txt.split("\n") if l.startswith("case (len wchunk")]
        vlib.build_harness()
        impl, _ = vlib.run_impl(["async"], cases)
        for c, o in zip(cases, impl):
            print(c, "->", o[:200])
        return 0 if all("epoll_clean=1" in o and "readapt=1" in o for o in impl) else 1
    return p_seqprops.replay("C16", path, props=PROPS)
