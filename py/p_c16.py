"""C16 (decided on the sequential loop model; see p_seqprops.py, oracles.py, coq/props/C16.v)"""
import p_seqprops

PROPS = ["C16"]
PROFILES = [(3, {"epoll_prob": 1.0, "dropdisp_prob": 0.12, "share_fd_prob": 0.1, "kinds": {"comp": 5, "ping": 2, "timer": 0.5, "chan": 2}}), (1, {})]


def async_adapters(chk, st):
    """live Async adapters are part of C16: after drop / into_inner the fd must have left the poller and be insertable again
    (end-to-end runs of harness/src/m_async.rs on a real socket pair; the kernel's table is read from /proc)"""
    import p_c17
    import vlib
    cases = [c for c in p_c17.gen_cases("quick", 1) if int(c.split()[0]) <= 70000][:24]
    impl, ilog = vlib.run_impl(["async"], cases, timeout=600)
    bad = [(c, o) for c, o in zip(cases, impl) if "epoll_clean=1" not in o or "readapt=1" not in o]
    chk.cov["async_adapter_cases"] = {"cases": len(cases), "failing": len(bad),
                                      "rule": "payload/chunk/order/drop|into_inner matrix of the C17 harness; checked here: fd gone from /proc/self/fdinfo/<epfd> and re-adaptable"}
    if bad:
        c, o = bad[0]
        what = "the fd of a dropped / unwrapped Async adapter is still registered with the OS poller" if "epoll_clean=0" in o else \
               "the fd released by into_inner could not be adapted again"
        chk.violation("oracle-async", "C16 violated on the real code: %s\ncase (len wchunk rchunk order early_dispatch nonblocking_before end): %s\n# result: %s\n(%d failing cases)"
                      % (what, c, o[:300], len(bad)))


# ---------------------------------------------------------------- Generic lifecycles (coq/theories/GenLife.v, harness/src/m_genlife.rs)
def gen_genlife(rnd, n):
    """histories of new / set / register / reregister / unregister / unwrap / drop over up to 4 Generic objects and 3 eventfds
    (two objects may wrap the same fd: the second registration fails with EEXIST). Mostly valid operations, some on objects that
    do not exist or are not registered."""
    cases = []
    for _ in range(n):
        live, ops = {}, []          # g -> registered?
        for _ in range(rnd.randint(4, 26)):
            k = rnd.random()
            g = rnd.choice(list(live.keys())) if live and rnd.random() < 0.9 else rnd.randint(1, 5)
            regd = [x for x, v in live.items() if v]
            if 0.55 <= k < 0.80 and regd and rnd.random() < 0.8:
                g = rnd.choice(regd)          # reregister / unregister mostly aim at an object believed to be registered
            elif 0.22 <= k < 0.45 and rnd.random() < 0.7:
                unreg = [x for x, v in live.items() if not v]
                if unreg:
                    g = rnd.choice(unreg)
            if k < 0.22 or not live:
                g = rnd.randint(1, 5)
                ops.append("n%d:%d:%d:%d" % (g, rnd.choice([10, 10, 11, 12]), rnd.choice([1, 2, 3, 1, 0]), rnd.choice([0, 0, 1, 2])))
                live.setdefault(g, False)
            elif k < 0.45:
                ops.append("r%d:%d" % (g, rnd.randint(0, 6)))
                if g in live:
                    live[g] = True              # a guess (it fails on a shared fd): the oracle follows the result codes, not this
            elif k < 0.55:
                ops.append("s%d:%d:%d" % (g, rnd.choice([1, 2, 3, 0]), rnd.choice([0, 1, 2])))
            elif k < 0.68:
                ops.append("m%d:%d" % (g, rnd.randint(0, 6)))
            elif k < 0.80:
                ops.append("u%d" % g)
                if g in live:
                    live[g] = False
            elif k < 0.90:
                ops.append("w%d" % g)
                live.pop(g, None)
            else:
                ops.append("d%d" % g)
                live.pop(g, None)
        cases.append(" ".join(ops))
    return cases


def judge_genlife(case, out):
    """C16 restated on the implementation's own output: after every operation the kernel's table is exactly {fd of every registered
    Generic -> (interest, mode, key) it last (re)registered}. Registration state is followed from the result codes."""
    gens, reg = {}, {}        # g -> [fd, it, md] ; g -> (it, md, key) when registered
    ops, res = case.split(), out.split()
    if len(ops) != len(res):
        return "output has %d entries for %d operations: %s" % (len(res), len(ops), out[:200])
    for i, (op, r) in enumerate(zip(ops, res)):
        code, tbl = r.split("/")
        code = int(code)
        kind, f = op[0], [int(x) for x in op[1:].split(":")]
        g = f[0]
        if kind == "r" and g in gens and g not in reg and code != 0:
            # a rejected registration can be retried (C15), a released fd can be inserted again (C16): registering an unregistered
            # Generic whose fd is in the table of nobody must succeed
            if not any(gens[x][0] == gens[g][0] for x in reg):
                return ("operation %d (%s): registering Generic %d failed (code %d) although its fd %d is not registered by anyone - "
                        "a rejected or released registration cannot be retried" % (i + 1, op, g, code, gens[g][0]))
        if kind == "n" and code == 0:
            gens[g] = [f[1], f[2], f[3]]
        elif kind == "s" and code == 0:
            gens[g][1:] = [f[1], f[2]]
        elif kind in "rm" and code == 0:
            reg[g] = (gens[g][1], gens[g][2], f[1])
        elif kind == "u" and code == 0:
            reg.pop(g, None)
        elif kind in "wd" and code == 0:
            reg.pop(g, None)
            gens.pop(g, None)
        want = sorted((((gens[g][0] * 4 + it) * 4 + md) << 64) + key for g, (it, md, key) in reg.items())
        got = [] if tbl == "-" else sorted(int(x) for x in tbl.split(","))
        if got != want:
            def show(c):
                return "fd %d interest %d mode %d key %d" % ((c >> 64) // 16, ((c >> 64) // 4) % 4, (c >> 64) % 4, c & ((1 << 64) - 1))
            return ("after operation %d (%s, result %d) the kernel's table is [%s] but the registered Generics are [%s]"
                    % (i + 1, op, code, "; ".join(show(c) for c in got), "; ".join(show(c) for c in want)))
    return None


def genlife(chk, st, prop="C16"):
    import random
    import vlib
    rnd = random.Random(chk.seed * 7919 + 16)
    directed = ["n1:10:1:0 r1:0 w1 n2:10:1:0 r2:1 d2",
                "n1:10:1:0 r1:0 u1 w1 n2:10:3:2 r2:3 u2 d2",
                "n1:10:1:0 n2:10:2:1 r1:0 r2:1 w2 d1 n3:10:1:0 r3:2 w3",
                "n1:10:1:0 r1:0 s1:3:2 m1:4 w1 n1:10:1:0 r1:5 d1 n1:10:2:0 r1:6"]
    cases = directed + gen_genlife(rnd, 400 if chk.tier == "quick" else 12000)
    impl, ilog = vlib.run_impl(["genlife"], cases, timeout=900)
    model, mlog = vlib.run_model(["genlife"], cases)
    div = [(c, a, b) for c, a, b in zip(cases, impl, model) if a != b]
    bad = [(c, o, judge_genlife(c, o)) for c, o in zip(cases, impl)]
    bad = [(c, o, w) for c, o, w in bad if w]
    import collections
    hist = collections.Counter()
    for c, o in zip(cases, impl):
        for op, r in zip(c.split(), o.split()):
            hist["%s->%s" % (op[0], r.split("/")[0])] += 1
    chk.cov["generic_lifecycle"] = {"histories": len(cases), "model_impl_divergences": len(div), "oracle_failures": len(bad),
                                    "op_result_histogram": dict(sorted(hist.items())),
                                    "rule": "real Generic + kernel epoll table (/proc) vs coq/theories/GenLife.v (extracted), compared after every "
                                            "operation; oracle = C16 restated on the implementation's output (theorem C16_generic_table_exact)"}
    if bad:
        c, o, w = min(bad, key=lambda x: len(x[0]))
        chk.violation("oracle-genlife", "%s violated on the real code: %s\ngenlife case: %s\n# implementation: %s\n(%d failing histories)"
                      % (prop, w, c, o, len(bad)))
    elif div:
        c, a, b = div[0]
        chk.violation("genlife-diverge", "correspondence broken: Generic lifecycle model and implementation differ on %d of %d histories\n"
                      "genlife case: %s\n# implementation: %s\n# model:          %s\nthe oracle accepts all implementation outputs"
                      % (len(div), len(cases), c, a, b), nofail=True)


def extra(chk, st):
    async_adapters(chk, st)
    genlife(chk, st)
    import p_dupadapt
    p_dupadapt.stage(chk, "C16")


def main(tier, seed):
    return p_seqprops.run("C16", tier, seed, PROFILES, props=PROPS, extra_front=extra)


def replay(path):
    txt = open(path).read()
    if "case (len wchunk" in txt:
        import vlib
        cases = [l.split(":", 1)[1].strip() for l in txt.split("\n") if l.startswith("case (len wchunk")]
        vlib.build_harness()
        impl, _ = vlib.run_impl(["async"], cases)
        for c, o in zip(cases, impl):
            print(c, "->", o[:200])
        return 0 if all("epoll_clean=1" in o and "readapt=1" in o for o in impl) else 1
    if "dupadapt case" in txt:
        import p_dupadapt
        return p_dupadapt.replay(path)
    if "genlife case:" in txt:
        import vlib
        cases = [l.split(":", 1)[1].strip() for l in txt.split("\n") if l.startswith("genlife case:")]
        vlib.build_harness()
        impl, _ = vlib.run_impl(["genlife"], cases)
        rc = 0
        for c, o in zip(cases, impl):
            w = judge_genlife(c, o)
            print(c, "->", o[:300], "|", w or "ok")
            rc = rc or (1 if w else 0)
        return rc
    return p_seqprops.replay("C16", path, props=PROPS)
