"""C07 (decided on the sequential loop model; see p_seqprops.py, oracles.py, coq/props/C07.v)"""
import p_seqprops

PROPS = ["C07"]
PROFILES = [(3, {"script_prob": 0.9, "share_fd_prob": 0.03, "gap_frac": 0.15}), (1, {})]


def main(tier, seed):
    return p_seqprops.run("C07", tier, seed, PROFILES, props=PROPS)


def replay(path):
    return p_seqprops.replay("C07", path, props=PROPS)
