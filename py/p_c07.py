"""C07 (decided on the sequential loop model; see p_seqprops.py, oracles.py, coq/props/C07.v)"""
import p_seqprops

PROPS = ["C07"]
PROFILES = [(3, {"script_prob": 0.9, "share_fd_prob": 0.03, "gap_frac": 0.15}), (1, {})]


def transient_stage(chk, st):
    """a TransientSource whose child answered PostAction::Disable: the child stays out of the poller until the parent is enabled
    again - update() of the parent must not bring it back (the C18 harness and its judge `disabled-child-registered-again`)"""
    import p_c18
    import vlib
    cases = p_c18.gen_cases("quick", chk.seed)
    impl, _ = vlib.run_impl(["transient"], cases)
    by_case = dict(zip(cases, impl))
    bad = []
    for c in cases:
        fs = p_c18.judge_disabled_stays_out(c, by_case)
        if fs:
            bad.append((c, by_case[c], fs))
    chk.cov["transient_disabled_child_cases"] = {"cases": len(cases), "failing": len(bad)}
    if bad:
        c, i, fs = min(bad, key=lambda x: len(x[0]))
        chk.violation("oracle-transient", "C07 violated on the real code: %s\ntransient case: %s\n# implementation observations: %s\n(%d failing cases)"
                      % (fs[0], c, i, len(bad)))


def main(tier, seed):
    return p_seqprops.run("C07", tier, seed, PROFILES, props=PROPS, extra_front=transient_stage)


def replay(path):
    txt = open(path).read()
    if "transient case:" in txt:
        import p_c18
        import vlib
        vlib.build_harness()
        case = [l.split(":", 1)[1].strip() for l in txt.split("\n") if l.startswith("transient case:")][0]
        ws = case.split()
        cases = [" ".join(ws[:1 + n]) for n in range(len(ws))]
        impl, _ = vlib.run_impl(["transient"], cases)
        fs = p_c18.judge_disabled_stays_out(case, dict(zip(cases, impl)))
        print(case, "->", impl[-1], "|", fs or "ok")
        return 1 if fs else 0
    return p_seqprops.replay("C07", path, props=PROPS)
