"""Run sequential scenarios through the real calloop and the extracted model; compare traces."""
import os
import subprocess
import tempfile

import vlib

TAGS = {0: "ORDER", 1: "OP", 2: "CB", 3: "BEFORE_SLEEP", 4: "BEFORE_HANDLE", 5: "IDLE", 6: "DISPATCH", 7: "BATCH",
        8: "STATS", 9: "EPOLL", 10: "PANIC", 16: "REGOP", 17: "CMD", 12: "SLOT", 13: "LIFECYCLE", 14: "WHEEL", 15: "DROP"}
OPS = {1: "insert", 2: "remove", 3: "disable", 4: "enable", 5: "update", 6: "setint", 7: "setdl", 8: "intoinner",
       9: "dropdisp", 10: "send", 11: "trysend"}


def split_traces(text):
    out, cur, cid = {}, None, None
    for line in text.split("\n"):
        if line.startswith("=== "):
            cid = line.split()[1]
            cur = []
            out[cid] = cur
        elif cur is not None and line != "":
            cur.append(line)
    return out


def _run_shard(args):
    scen_text, idx = args
    d = tempfile.mkdtemp(prefix="cvseq")
    sp, ip = os.path.join(d, "s.scn"), os.path.join(d, "i.trace")
    open(sp, "w").write(scen_text)
    res = {"impl": "", "model": "", "err": ""}
    try:
        p = subprocess.run([vlib.HARNESS, "seq", sp], stdout=subprocess.PIPE, stderr=subprocess.PIPE, text=True, timeout=600)
        res["impl"] = p.stdout
        if p.returncode != 0:
            res["err"] += "harness rc=%s %s\n" % (p.returncode, p.stderr[-800:])
        open(ip, "w").write(p.stdout)
        p = subprocess.run([vlib.DRIVER, "seq", sp, ip], stdout=subprocess.PIPE, stderr=subprocess.PIPE, text=True, timeout=600)
        res["model"] = p.stdout
        if p.returncode != 0:
            res["err"] += "driver rc=%s %s\n" % (p.returncode, p.stderr[-800:])
    except subprocess.TimeoutExpired:
        res["err"] += "timeout\n"
    finally:
        for f in (sp, ip):
            try:
                os.remove(f)
            except OSError:
                pass
        try:
            os.rmdir(d)
        except OSError:
            pass
    return res


def run_scenarios(scens):
    """scens: list of scenario texts (each starting with '=== id'). Returns dict id -> (impl_lines, model_lines), errlog."""
    from concurrent.futures import ThreadPoolExecutor
    n = max(1, min(vlib.NCPU, len(scens) // 20 or 1))
    shards = ["".join(scens[i::n]) for i in range(n)]
    with ThreadPoolExecutor(max_workers=n) as ex:
        results = list(ex.map(_run_shard, [(s, i) for i, s in enumerate(shards)]))
    out, err = {}, ""
    for r in results:
        err += r["err"]
        it, mt = split_traces(r["impl"]), split_traces(r["model"])
        for k in it:
            out[k] = (it[k], mt.get(k, ["<NO MODEL TRACE>"]))
    return out, err


def comparable(lines):
    return [l for l in lines if not l.startswith("0 ") and l != "0"]


def strip_unwind_drops(lines):
    """a scenario that ends in a (caught) panic: the harness logs the PANIC line after the unwinding, during which the in-flight
    clone of the running dispatcher is dropped - the model stops at the panic. DROP lines directly before a final PANIC line are
    therefore not compared (on either side)."""
    if not lines or not lines[-1].startswith("10 "):
        return lines
    k = len(lines) - 1
    while k > 0 and lines[k - 1].startswith("15 "):
        k -= 1
    return lines[:k] + [lines[-1]]


def first_diff(impl, model):
    a, b = strip_unwind_drops(comparable(impl)), strip_unwind_drops(list(model))
    for i in range(max(len(a), len(b))):
        x = a[i] if i < len(a) else "<end>"
        y = b[i] if i < len(b) else "<end>"
        if x != y:
            return i, x, y
    return None


def pretty(line):
    ws = line.split()
    if not ws:
        return line
    try:
        tag = int(ws[0])
    except ValueError:
        return line
    name = TAGS.get(tag, "?")
    if tag == 1 and len(ws) >= 3:
        return "%-28s OP %s h=%s -> %s" % (line, OPS.get(int(ws[1]), "?"), ws[2], ws[3] if len(ws) > 3 else "")
    return "%-28s %s" % (line[:60], name)


def parse_scripts(text):
    """scenario text -> ({h: [(ret, arg, [action words])]}, {h: [bs codes]}, {h: kind})"""
    scr, bs, kinds = {}, {}, {}
    cur = None
    for line in text.split("\n"):
        ws = line.split()
        if not ws:
            continue
        if ws[0] == "S":
            cur = (int(ws[2]), int(ws[3]), [])
            scr.setdefault(int(ws[1]), []).append(cur)
        elif ws[0] == "A" and cur is not None:
            cur[2].append(ws[1:])
            if ws[1] == "insert":
                kinds[int(ws[2])] = ws[3]
        elif ws[0] == "B":
            bs.setdefault(int(ws[1]), []).append(int(ws[2]))
        elif ws[0] == "C" and ws[1] == "insert":
            kinds[int(ws[2])] = ws[3]
    return scr, bs, kinds


def segments(trace):
    """split an implementation trace into callback segments: list of (cb_words, [following lines' words])
    a segment ends at the next callback / idle / dispatch-end / batch / lifecycle-hook / panic line"""
    segs, cur = [], None
    for l in trace:
        ws = l.split()
        if not ws:
            continue
        if ws[0] == "2":
            cur = (ws, [])
            segs.append(cur)
        elif ws[0] in ("5", "6", "7", "3", "4", "10", "0", "8", "9", "12", "13", "14", "17"):
            cur = None
        elif cur is not None:
            cur[1].append(ws)
    return segs
