"""C12  dispatch() waits exactly as long as it should: no spinning, no oversleeping (PARTIAL: arithmetic proved, waiting measured)."""
import subprocess
from concurrent.futures import ThreadPoolExecutor

import vlib

SLACK_LOW_US = 1500       # the kernel rounds timeouts; polling rounds up to ms
SLACK_HIGH_US = 120000    # scheduling latency allowance
WAKE_MS = 150             # timeout None: another thread calls wakeup() after this long


def cases_for(tier):
    timeouts = [0, 40, 400, -1, -2]          # -1: None, -2: Some(Duration::MAX); both ended by a wakeup() from another thread
    timers = [-1, 20, 40, 100, 400, 700, -3, -2, -4]   # -2: Duration::MAX, -3: already expired, -4: 2^64 ms + 100 ms away
    idles = [0, 1, 2, 3, 4, 5, 6]     # 1-4: idle sources; 5: a queued idle callback; 6: a queued and cancelled idle callback
    out = []
    for t in timeouts:
        for tm in timers:
            for i in (idles if tier == "thorough" or tm in (-1, 20, -2, -4) else [0, 3, 5, 6]):
                out.append("%d %d %d" % (t, tm, i))
    # a before_sleep hook that takes 300 ms (idle kind 7): the wait that follows is shortened by what the hook took - the dispatch ends at
    # max(300 ms, the limit), it does not sleep the limit again
    for t, tm in ((400, 250), (400, -1), (-1, 250), (0, -1), (400, 20)):
        out.append("%d %d 7" % (t, tm))
    # a wake-up that is already pending when the dispatch starts (issued on the loop's thread just before it, or from a callback of the
    # previous dispatch): the dispatch must not block, whatever its timeout
    for t in (400, -1, -2):
        for tm in (-1, 400, -2):
            for i in ((0, 1, 5) if tier == "thorough" else (0,)):
                for pw in (1, 2):
                    out.append("%d %d %d %d" % (t, tm, i, pw))
    return out


def run_impl_one(case):
    p = subprocess.run([vlib.HARNESS, "timing"], input=case + "\n", stdout=subprocess.PIPE, stderr=subprocess.PIPE, text=True, timeout=60)
    return p.stdout.strip()


def judge(case, impl, eff_ms, limit_is_timer):
    """returns (hard failures, soft = upper-bound miss that may be scheduler noise)"""
    t, tm, idle = (int(x) for x in case.split()[:3])
    prewake = int(case.split()[3]) if len(case.split()) > 3 else 0
    if prewake:
        eff_ms, limit_is_timer = 0, False        # a pending wake-up makes the wait return at once (C11_pending_wakeup_not_lost)
    ws = impl.split()
    if len(ws) != 4:
        return ["no measurement: %s" % impl], False
    el, fired, other, ok = int(ws[0]), int(ws[1]), int(ws[2]), int(ws[3])
    fails = []
    if ok != 1:
        fails.append("dispatch returned an error")
    if other:
        fails.append("spurious: an idle source's callback ran %d times" % other)
    if t < 0 and not prewake and (eff_ms < 0 or eff_ms > WAKE_MS):
        eff_ms, limit_is_timer = WAKE_MS, False      # the wakeup() from the other thread ends the wait first
    if idle == 7:
        # the hook itself takes 300 ms; then the poller is given the caller's timeout (a duration) or what is LEFT until the earliest
        # deadline (an instant) - the time the hook took is not slept again for a timer
        inf = 10 ** 9
        left_timer = max(0, tm - 300) if tm >= 0 else inf
        left_timeout = t if t >= 0 else (0 if WAKE_MS <= 300 else inf)      # None: the helper's wakeup() (150 ms) is pending by then
        eff_ms = 300 + min(left_timer, left_timeout)
        limit_is_timer = tm >= 0 and left_timer <= left_timeout
    want_us = eff_ms * 1000
    if el + SLACK_LOW_US < want_us:
        fails.append("spinning/early: dispatch returned after %d us, the limit is %d us" % (el, want_us))
    if limit_is_timer and not fired:
        fails.append("the timer was the limit of the wait but did not fire in that dispatch")
    if not limit_is_timer and fired and not (tm >= 0 and eff_ms >= 0 and tm <= eff_ms + 130):
        fails.append("timer fired although its deadline lies beyond the wait")
    soft = el > want_us + SLACK_HIGH_US
    return fails, soft


def cases2_for(tier, seed):
    """histories of up to three timers (insert, set_deadline+update, disable, enable, remove), then one measured idle dispatch"""
    import random
    rnd = random.Random(seed * 53 + 12)
    # directed: an arming is cancelled while it is not the earliest one, or re-armed earlier than every other timer
    cases = ["700 | i1:300 i2:500 s2:100 r2 r1", "700 | i1:200 i2:600 x2", "700 | i1:200 i2:400 s2:100 x2 x1", "600 | i1:300 i2:500 r2",
             "700 | i1:200 i2:500 s2:100 r2", "700 | i1:300 i2:600 x2 n2 x2 r1", "650 | i1:150 i2:300 i3:500 s3:100 r3 r1 r2",
             "500 | i1:400 s1:100", "500 | i1:100 s1:400", "600 | i1:200 i2:400 x1", "600 | i1:200 x1 n1"]
    n = 14 if tier == "quick" else 120
    for _ in range(n):
        slots = [100, 200, 300, 400, 500, 600]
        rnd.shuffle(slots)
        ops, live, dis = [], [], []
        for k in range(1, rnd.randint(2, 3) + 1):
            ops.append("i%d:%d" % (k, slots.pop()))
            live.append(k)
        for _ in range(rnd.randint(1, 4)):
            c = rnd.random()
            if c < 0.4 and live and slots:
                ops.append("s%d:%d" % (rnd.choice(live), slots.pop()))
            elif c < 0.6 and live:
                k = rnd.choice(live)
                ops.append("x%d" % k)
                dis.append(k)
            elif c < 0.75 and dis:
                ops.append("n%d" % dis.pop())
            elif live:
                k = live.pop(rnd.randrange(len(live)))
                ops.append("r%d" % k)
                if k in dis:
                    dis.remove(k)
        cases.append("%d | %s" % (rnd.choice([350, 700]), " ".join(ops)))
    return cases


def run_impl2_one(case):
    p = subprocess.run([vlib.HARNESS, "timing2"], input=case + "\n", stdout=subprocess.PIPE, stderr=subprocess.PIPE, text=True, timeout=60)
    return p.stdout.strip()


def judge2(case, impl, model):
    ws, ms = impl.split(), model.split()
    if len(ws) != 4 or len(ms) != 2:
        return ["no measurement: %s / %s" % (impl, model)], False
    el, fired, ok = int(ws[0]), ws[1], int(ws[2])
    eff, due = int(ms[0]), ms[1]
    fails = []
    if ok != 1:
        fails.append("dispatch returned an error")
    if el + SLACK_LOW_US < eff * 1000:
        fails.append("early: the idle dispatch returned after %d us; the earliest live arming / the timeout allow %d ms (a cancelled arming still bounds the wait?)" % (el, eff))
    if sorted(fired.split(",")) != sorted(due.split(",")):
        fails.append("fired timers %s, due at the end of the wait: %s" % (fired, due))
    return fails, el > eff * 1000 + SLACK_HIGH_US


SEQ_PROFILES = [(1, {"kinds": {"timer": 7, "comp": 1, "ping": 1, "chan": 0.5}, "n_setup": (3, 7), "script_prob": 0.9, "stats_prob": 0.9,
                     "share_fd_prob": 0.0, "err_ret_prob": 0.0, "n_cmds": (12, 36)})]


def main(tier, seed):
    chk = vlib.Check("C12", tier, seed)
    st = vlib.standard_front(chk)
    chk.assumptions = ["wall-clock measurement on this machine: lower bound eff - 1.5 ms, upper bound eff + 120 ms, an upper-bound miss is re-measured up to 3 times",
                       "timeout None is ended by LoopSignal::wakeup() from another thread after 150 ms",
                       "PARTIAL: the kernel's wait is measured, not modelled; the arithmetic (eff_timeout) and 'the limiting timer is in the batch' are proved"]
    if not (st.get("harness_ok") and st.get("model_ok")):
        chk.violation("build", "correspondence broken: build failed\n%s\n%s" % (st.get("harness_log", "")[-2000:], st.get("model_log", "")[-2000:]), nofail=True)
        chk.cov.update({"evaluations": 0, "distinct_nontrivial": 0})
        return chk.finish()
    cases = cases_for(tier)
    model, mlog = vlib.run_model(["timing"], [" ".join(c.split()[:3]) for c in cases])
    with ThreadPoolExecutor(max_workers=6) as ex:
        impl = list(ex.map(run_impl_one, cases))
    bad, retried = [], 0
    rows = []
    for c, i, m in zip(cases, impl, model):
        eff, lim = int(m.split()[0]), m.split()[1] == "1"
        fails, soft = judge(c, i, eff, lim)
        tries = 0
        while (soft or any(f.startswith("timer fired") for f in fails)) and tries < 3 and not [f for f in fails if not f.startswith("timer fired")]:
            tries += 1
            retried += 1
            i = run_impl_one(c)
            fails, soft = judge(c, i, eff, lim)
        if soft and len(c.split()) > 3:
            fails.append("oversleeping: a wake-up was pending when the dispatch started (%s), yet it took %s us (4 measurements): the wake-up was lost"
                         % ("wakeup() called just before it" if c.split()[3] == "1" else "wakeup() called from a callback of the previous dispatch", i.split()[0]))
        elif soft:
            fails.append("oversleeping: dispatch took %s us, the limit is %d ms (4 measurements)" % (i.split()[0], WAKE_MS if (eff < 0 or (c.startswith("-1") and eff > WAKE_MS)) else eff))
        rows.append((c, i, m))
        if fails:
            bad.append((c, i, m, fails))
    chk.cov.update({
        "evaluations": len(cases), "distinct_nontrivial": len(set(cases)), "exhaustive": True,
        "traces_validated_against_impl": len(cases) - len(bad), "remeasured": retried,
        "rule": "matrix timeout {0,40,400 ms,None+wakeup} x timer {none,20,40,100,400,700 ms,expired,Duration::MAX} x idle sources {none, ping, channel, "
                "orphaned ping, closed channel}; a case is one real dispatch() measured with Instant",
        "samples": [{"case": c, "impl(elapsed_us fired other ok)": i, "model(eff_ms limit_is_timer)": m} for c, i, m in rows[:4]],
    })
    # ---- histories of several timers, then one measured idle dispatch
    cases2 = cases2_for(tier, seed)
    model2, mlog2 = vlib.run_model(["timing2"], cases2)
    with ThreadPoolExecutor(max_workers=8) as ex:
        impl2 = list(ex.map(run_impl2_one, cases2))
    bad2 = []
    for c, i, m in zip(cases2, impl2, model2):
        fails, soft = judge2(c, i, m)
        tries = 0
        while soft and not fails and tries < 3:
            tries += 1
            retried += 1
            i = run_impl2_one(c)
            fails, soft = judge2(c, i, m)
        if soft and not fails:
            fails.append("oversleeping: %s us for a limit of %s ms (4 measurements)" % (i.split()[0], m.split()[0]))
        if fails:
            bad2.append((c, i, m, fails))
    chk.cov["evaluations"] += len(cases2)
    chk.cov["traces_validated_against_impl"] += len(cases2) - len(bad2)
    chk.cov["timer_histories"] = {"cases": len(cases2), "rule": "directed + random histories of 2-3 timers with distinct deadlines 100..600 ms (insert, set_deadline+update, "
                                  "disable, enable, remove), then one idle dispatch(350|700 ms) measured; the model's wheel after the same history gives the "
                                  "expected wait and the timers due", "sample": {"case": cases2[0], "impl(elapsed_us fired ok setup_us)": impl2[0], "model(eff_ms due)": model2[0]}}
    mlog = (mlog or "") + (mlog2 or "")
    if bad2 and not bad:
        c, i, m, fails = bad2[0]
        chk.violation("oracle-history", "C12 violated on the real code: %s\ncase (timeout_ms | timer history): %s\nmeasured (elapsed_us fired ok setup_us): %s\nmodel (eff_ms due): %s\n(%d failing cases)"
                      % (fails[0], c, i, m, len(bad2)))
        return chk.finish()
    if bad:
        c, i, m, fails = bad[0]
        chk.violation("oracle", "C12 violated on the real code: %s\ncase (timeout_ms timer_ms idle_kind [pending_wakeup]): %s\nmeasured (elapsed_us fired other ok): %s\nmodel (eff_ms limit_is_timer): %s\n(%d failing cases)"
                      % (fails[0], c, i, m, len(bad)))
    elif not st["proof"]["ok"] or mlog:
        chk.violation("broken", "C12 is no longer shown to hold: %s %s\nall %d measured cases were within bounds: no failing input found" %
                      (st["proof"]["failed"], mlog[:300], len(cases)), nofail=True)
    # ---- third stage: timer-heavy histories on the sequential loop model under the virtual clock (dispatches between the timer
    # operations, re-arming callbacks): a timer that is armed and due when a dispatch waits must fire in it
    import oracles
    import p_seqprops
    import seqcheck
    return seqcheck.run_seq_check("C12", tier, seed, SEQ_PROFILES, oracles.oracle_for(["C12"]), 500, 12000,
                                  ["third stage: sequential scenarios with many timers (virtual clock): the wheel model must agree with the real wheel after "
                                   "every history, and a due armed timer must fire in the dispatch that waits past it"],
                                  known_classifier=p_seqprops.classify, stage_of=(chk, st))


def replay(path):
    if "=== " in open(path).read():
        import oracles
        import seqcheck
        return seqcheck.replay("C12", path, oracles.oracle_for(["C12"]))
    cases = [l.strip() for l in open(path) if len(l.split()) in (3, 4) and all(w.lstrip("-").isdigit() for w in l.split())]
    cases += [l.split(":", 1)[1].strip() for l in open(path) if l.startswith("case (timeout_ms timer_ms idle_kind")]
    cases2 = [l.split(":", 1)[1].strip() for l in open(path) if l.startswith("case (timeout_ms | timer history):")]
    cases2 += [l.strip() for l in open(path) if "|" in l and l.split("|")[0].strip().isdigit() and not l.startswith("case")]
    vlib.build_harness()
    vlib.build_model()
    if cases2:
        model2, _ = vlib.run_model(["timing2"], cases2)
        rc = 0
        for c, m in zip(cases2, model2):
            i = run_impl2_one(c)
            f, soft = judge2(c, i, m)
            print(c, "| impl:", i, "| model:", m, "|", f or "ok", "(slow)" if soft else "")
            if f:
                rc = 1
        if not cases:
            return rc
    model, _ = vlib.run_model(["timing"], [" ".join(c.split()[:3]) for c in cases])
    rc = 0
    for c, m in zip(cases, model):
        i = run_impl_one(c)
        f, soft = judge(c, i, int(m.split()[0]), m.split()[1] == "1")
        if soft and len(c.split()) > 3:
            f = f + ["oversleeping although a wake-up was pending"]
        print(c, "| impl:", i, "| model:", m, "|", f or "ok", "(slow)" if soft else "")
        if f:
            rc = 1
    return rc
