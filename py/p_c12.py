"""C12  dispatch() waits exactly as long as it should: no spinning, no oversleeping (PARTIAL: arithmetic proved, waiting measured)."""
import subprocess
from concurrent.futures import ThreadPoolExecutor

import vlib

SLACK_LOW_US = 1500       # the kernel rounds timeouts; polling rounds up to ms
SLACK_HIGH_US = 120000    # scheduling latency allowance
WAKE_MS = 150             # timeout None: another thread calls wakeup() after this long


def cases_for(tier):
    timeouts = [0, 40, 400, -1]
    timers = [-1, 20, 40, 100, 400, 700, -3, -2]
    idles = [0, 1, 2, 3, 4]
    out = []
    for t in timeouts:
        for tm in timers:
            for i in (idles if tier == "thorough" or tm in (-1, 20, -2) else [0, 3]):
                out.append("%d %d %d" % (t, tm, i))
    return out


def run_impl_one(case):
    p = subprocess.run([vlib.HARNESS, "timing"], input=case + "\n", stdout=subprocess.PIPE, stderr=subprocess.PIPE, text=True, timeout=60)
    return p.stdout.strip()


def judge(case, impl, eff_ms, limit_is_timer):
    """returns (hard failures, soft = upper-bound miss that may be scheduler noise)"""
    t, tm, idle = (int(x) for x in case.split())
    ws = impl.split()
    if len(ws) != 4:
        return ["no measurement: %s" % impl], False
    el, fired, other, ok = int(ws[0]), int(ws[1]), int(ws[2]), int(ws[3])
    fails = []
    if ok != 1:
        fails.append("dispatch returned an error")
    if other:
        fails.append("spurious: an idle source's callback ran %d times" % other)
    if t < 0 and (eff_ms < 0 or eff_ms > WAKE_MS):
        eff_ms, limit_is_timer = WAKE_MS, False      # the wakeup() from the other thread ends the wait first
    want_us = eff_ms * 1000
    if el + SLACK_LOW_US < want_us:
        fails.append("spinning/early: dispatch returned after %d us, the limit is %d us" % (el, want_us))
    if limit_is_timer and not fired:
        fails.append("the timer was the limit of the wait but did not fire in that dispatch")
    if not limit_is_timer and fired and not (tm >= 0 and eff_ms >= 0 and tm <= eff_ms + 130):
        fails.append("timer fired although its deadline lies beyond the wait")
    soft = el > want_us + SLACK_HIGH_US
    return fails, soft


def main(tier, seed):
    chk = vlib.Check("C12", tier, seed)
    st = vlib.standard_front(chk)
    chk.assumptions = ["wall-clock measurement on this machine: lower bound eff - 1.5 ms, upper bound eff + 120 ms, an upper-bound miss is re-measured up to 3 times",
                       "timeout None is ended by LoopSignal::wakeup() from another thread after 150 ms",
                       "PARTIAL: the kernel's wait is measured, not modelled; the arithmetic (eff_timeout) and 'the limiting timer is in the batch' are proved"]
    if not (st.get("harness_ok") and st.get("model_ok")):
        chk.violation("build", "correspondence broken: build failed\n%s\n%s" % (st.get("harness_log", "")[-2000:], st.get("model_log", "")[-2000:]), nofail=True)
        chk.cov.update({"evaluations": 0, "distinct_nontrivial": 0})
        return chk.finish()
    cases = cases_for(tier)
    model, mlog = vlib.run_model(["timing"], cases)
    with ThreadPoolExecutor(max_workers=6) as ex:
        impl = list(ex.map(run_impl_one, cases))
    bad, retried = [], 0
    rows = []
    for c, i, m in zip(cases, impl, model):
        eff, lim = int(m.split()[0]), m.split()[1] == "1"
        fails, soft = judge(c, i, eff, lim)
        tries = 0
        while (soft or any(f.startswith("timer fired") for f in fails)) and tries < 3 and not [f for f in fails if not f.startswith("timer fired")]:
            tries += 1
            retried += 1
            i = run_impl_one(c)
            fails, soft = judge(c, i, eff, lim)
        if soft:
            fails.append("oversleeping: dispatch took %s us, the limit is %d ms (4 measurements)" % (i.split()[0], WAKE_MS if (eff < 0 or (c.startswith("-1") and eff > WAKE_MS)) else eff))
        rows.append((c, i, m))
        if fails:
            bad.append((c, i, m, fails))
    chk.cov.update({
        "evaluations": len(cases), "distinct_nontrivial": len(set(cases)), "exhaustive": True,
        "traces_validated_against_impl": len(cases) - len(bad), "remeasured": retried,
        "rule": "matrix timeout {0,40,400 ms,None+wakeup} x timer {none,20,40,100,400,700 ms,expired,Duration::MAX} x idle sources {none, ping, channel, "
                "orphaned ping, closed channel}; a case is one real dispatch() measured with Instant",
        "samples": [{"case": c, "impl(elapsed_us fired other ok)": i, "model(eff_ms limit_is_timer)": m} for c, i, m in rows[:4]],
    })
    if bad:
        c, i, m, fails = bad[0]
        chk.violation("oracle", "C12 violated on the real code: %s\ncase (timeout_ms timer_ms idle_kind): %s\nmeasured (elapsed_us fired other ok): %s\nmodel (eff_ms limit_is_timer): %s\n(%d failing cases)"
                      % (fails[0], c, i, m, len(bad)))
    elif not st["proof"]["ok"] or mlog:
        chk.violation("broken", "C12 is no longer shown to hold: %s %s\nall %d measured cases were within bounds: no failing input found" %
                      (st["proof"]["failed"], mlog[:300], len(cases)), nofail=True)
    return chk.finish()


def replay(path):
    cases = [l.strip() for l in open(path) if len(l.split()) == 3 and l.split()[0].lstrip("-").isdigit()]
    vlib.build_harness()
    vlib.build_model()
    model, _ = vlib.run_model(["timing"], cases)
    rc = 0
    for c, m in zip(cases, model):
        i = run_impl_one(c)
        f, soft = judge(c, i, int(m.split()[0]), m.split()[1] == "1")
        print(c, "| impl:", i, "| model:", m, "|", f or "ok", "(slow)" if soft else "")
        if f:
            rc = 1
    return rc
