//! Async adapter end to end on a socketpair (C17).
//! Case line:  <payload_len> <write_chunk> <read_chunk> <order: rw|wr> <dispatch_between: 0|1> <nonblock_before: 0|1> <end: drop|inner> [<vectored: 0|1> <reuse: k>]
//!   vectored: the tasks use poll_read_vectored / poll_write_vectored (two slices per call); reuse: k sources are inserted and removed first, so
//!   that the adapters live in slots that were used before (generation >= 1)
//! Output: bytes_ok flags_ok(reader,writer) finished epoll_clean readapt dispatches
use calloop::futures::executor;
use calloop::EventLoop;
use futures_io::{AsyncRead, AsyncWrite};
use std::cell::RefCell;
use std::future::Future;
use std::os::fd::AsRawFd;
use std::os::unix::net::UnixStream;
use std::pin::Pin;
use std::rc::Rc;
use std::task::{Context, Poll};
use std::time::Duration;

fn nonblock(fd: i32) -> bool {
    unsafe { libc::fcntl(fd, libc::F_GETFL) & libc::O_NONBLOCK != 0 }
}
fn set_nonblock(fd: i32, on: bool) {
    unsafe {
        let fl = libc::fcntl(fd, libc::F_GETFL);
        let fl = if on { fl | libc::O_NONBLOCK } else { fl & !libc::O_NONBLOCK };
        libc::fcntl(fd, libc::F_SETFL, fl);
    }
}

type EvLog = Rc<RefCell<Vec<String>>>;

struct ReadAll<'a> {
    io: &'a mut calloop::io::Async<'static, UnixStream>,
    want: usize,
    chunk: usize,
    got: Vec<u8>,
    log: EvLog,
    vec: bool,
}
impl Future for ReadAll<'_> {
    type Output = Vec<u8>;
    fn poll(mut self: Pin<&mut Self>, cx: &mut Context<'_>) -> Poll<Vec<u8>> {
        self.log.borrow_mut().push("P".into());
        loop {
            if self.got.len() >= self.want {
                return Poll::Ready(std::mem::take(&mut self.got));
            }
            let n = self.chunk.min(self.want - self.got.len());
            let mut buf = vec![0u8; n];
            let this = &mut *self;
            let res = if this.vec && n >= 2 {
                let (a, b) = buf.split_at_mut(n / 2);
                let mut sl = [std::io::IoSliceMut::new(a), std::io::IoSliceMut::new(b)];
                Pin::new(&mut *this.io).poll_read_vectored(cx, &mut sl)
            } else {
                Pin::new(&mut *this.io).poll_read(cx, &mut buf)
            };
            match res {
                Poll::Ready(Ok(0)) => return Poll::Ready(std::mem::take(&mut self.got)),
                Poll::Ready(Ok(k)) => {
                    self.log.borrow_mut().push(format!("R{}", k));
                    self.got.extend_from_slice(&buf[..k])
                }
                Poll::Ready(Err(_)) => return Poll::Ready(std::mem::take(&mut self.got)),
                Poll::Pending => {
                    self.log.borrow_mut().push("B".into());
                    return Poll::Pending;
                }
            }
        }
    }
}
struct WriteAll<'a> {
    io: &'a mut calloop::io::Async<'static, UnixStream>,
    data: Vec<u8>,
    pos: usize,
    chunk: usize,
    log: EvLog,
    vec: bool,
}
impl Future for WriteAll<'_> {
    type Output = usize;
    fn poll(mut self: Pin<&mut Self>, cx: &mut Context<'_>) -> Poll<usize> {
        loop {
            if self.pos >= self.data.len() {
                return Poll::Ready(self.pos);
            }
            let end = (self.pos + self.chunk).min(self.data.len());
            let this = &mut *self;
            let res = if this.vec && end - this.pos >= 2 {
                let mid = this.pos + (end - this.pos) / 2;
                let sl = [std::io::IoSlice::new(&this.data[this.pos..mid]), std::io::IoSlice::new(&this.data[mid..end])];
                Pin::new(&mut *this.io).poll_write_vectored(cx, &sl)
            } else {
                Pin::new(&mut *this.io).poll_write(cx, &this.data[this.pos..end])
            };
            match res {
                Poll::Ready(Ok(k)) => {
                    self.log.borrow_mut().push(format!("W{}", k));
                    self.pos += k
                }
                Poll::Ready(Err(_)) => return Poll::Ready(self.pos),
                Poll::Pending => return Poll::Pending,
            }
        }
    }
}

fn epoll_fds(epfd: i32) -> Vec<i32> {
    let text = std::fs::read_to_string(format!("/proc/self/fdinfo/{}", epfd)).unwrap_or_default();
    text.lines()
        .filter(|l| l.starts_with("tfd:"))
        .filter_map(|l| {
            let ws: Vec<&str> = l.split_whitespace().collect();
            let data = ws.get(5).and_then(|s| u64::from_str_radix(s, 16).ok()).unwrap_or(0);
            if data == u64::MAX {
                None
            } else {
                ws.get(1).and_then(|s| s.parse().ok())
            }
        })
        .collect()
}

fn run_case(line: &str) -> String {
    let ws: Vec<&str> = line.split_whitespace().collect();
    if ws.len() != 7 && ws.len() != 9 {
        return "BAD".into();
    }
    let vectored = ws.len() == 9 && ws[7] == "1";
    let reuse: usize = if ws.len() == 9 { ws[8].parse().unwrap_or(0) } else { 0 };
    let len: usize = ws[0].parse().unwrap_or(0);
    let wchunk: usize = ws[1].parse().unwrap_or(1).max(1);
    let rchunk: usize = ws[2].parse().unwrap_or(1).max(1);
    let reader_first = ws[3] == "rw";
    let dispatch_between = ws[4] == "1";
    let nb_before = ws[5] == "1";
    let end_inner = ws[6] == "inner";
    let mut event_loop: EventLoop<'static, ()> = EventLoop::try_new().expect("loop");
    let epfd = event_loop.as_raw_fd();
    let handle = event_loop.handle();
    let (exec, sched) = executor::<u8>().expect("executor");
    handle.insert_source(exec, |_, _, _| {}).expect("insert");
    let (tx, rx) = UnixStream::pair().expect("pair");
    let (txfd, rxfd) = (tx.as_raw_fd(), rx.as_raw_fd());
    set_nonblock(txfd, nb_before);
    set_nonblock(rxfd, nb_before);
    // duplicates of both ends, kept to the end of the case: O_NONBLOCK lives on the open file description, so they show whether
    // a plain drop of the adapter restored the blocking mode (the adapted fd itself is closed by then)
    let tx_dup = tx.try_clone().expect("dup tx");
    let rx_dup = rx.try_clone().expect("dup rx");
    let payload: Vec<u8> = (0..len).map(|i| (i * 31 + 7) as u8).collect();
    // occupy and vacate the slots the adapters are going to take: `reuse` rounds of two timers inserted and removed
    for _ in 0..reuse {
        let a = handle.insert_source(calloop::timer::Timer::from_duration(Duration::from_secs(3600)), |_, _, _| calloop::timer::TimeoutAction::Drop);
        let b = handle.insert_source(calloop::timer::Timer::from_duration(Duration::from_secs(3600)), |_, _, _| calloop::timer::TimeoutAction::Drop);
        if let Ok(t) = a {
            handle.remove(t);
        }
        if let Ok(t) = b {
            handle.remove(t);
        }
    }
    let mut txa = handle.adapt_io(tx).expect("adapt tx");
    let mut rxa = handle.adapt_io(rx).expect("adapt rx");
    let made_nb = nonblock(txfd) && nonblock(rxfd);
    let evlog: EvLog = Rc::new(RefCell::new(vec![]));
    let received: Rc<RefCell<Option<Vec<u8>>>> = Rc::new(RefCell::new(None));
    let written: Rc<RefCell<Option<usize>>> = Rc::new(RefCell::new(None));
    let back: Rc<RefCell<Vec<Option<UnixStream>>>> = Rc::new(RefCell::new(vec![]));
    let reader = {
        let received = received.clone();
        let back = back.clone();
        let evlog = evlog.clone();
        async move {
            let got = ReadAll {
                io: &mut rxa,
                want: len,
                chunk: rchunk,
                got: vec![],
                log: evlog,
                vec: vectored,
            }
            .await;
            *received.borrow_mut() = Some(got);
            if end_inner {
                back.borrow_mut().push(Some(rxa.into_inner()));
            } else {
                drop(rxa);
            }
            0u8
        }
    };
    let writer = {
        let written = written.clone();
        let back = back.clone();
        let payload = payload.clone();
        let evlog = evlog.clone();
        async move {
            let n = WriteAll {
                io: &mut txa,
                data: payload,
                pos: 0,
                chunk: wchunk,
                log: evlog,
                vec: vectored,
            }
            .await;
            *written.borrow_mut() = Some(n);
            if end_inner {
                back.borrow_mut().push(Some(txa.into_inner()));
            } else {
                drop(txa);
            }
            1u8
        }
    };
    if reader_first {
        sched.schedule(reader).expect("schedule");
        if dispatch_between {
            evlog.borrow_mut().push("D".into());
            let _ = event_loop.dispatch(Some(Duration::ZERO), &mut ());
        }
        sched.schedule(writer).expect("schedule");
    } else {
        sched.schedule(writer).expect("schedule");
        if dispatch_between {
            evlog.borrow_mut().push("D".into());
            let _ = event_loop.dispatch(Some(Duration::ZERO), &mut ());
        }
        sched.schedule(reader).expect("schedule");
    }
    let mut dispatches = 0;
    // give up once 100 consecutive dispatches (2 s) brought no event at all: both tasks are parked and nothing will wake them
    let mut idle_rounds = 0;
    while (received.borrow().is_none() || written.borrow().is_none()) && dispatches < 20000 && idle_rounds < 100 {
        evlog.borrow_mut().push("D".into());
        let before = evlog.borrow().len();
        let _ = event_loop.dispatch(Some(Duration::from_millis(20)), &mut ());
        dispatches += 1;
        idle_rounds = if evlog.borrow().len() == before { idle_rounds + 1 } else { 0 };
    }
    let finished = received.borrow().is_some() && written.borrow().is_some();
    let bytes_ok = received.borrow().as_ref().map(|g| *g == payload).unwrap_or(false);
    // blocking mode restored: after into_inner on the fd itself, after a plain drop through the duplicates (only once both tasks
    // have finished, i.e. both adapters are gone)
    let flags_ok = if end_inner {
        nonblock(txfd) == nb_before && nonblock(rxfd) == nb_before
    } else if finished {
        nonblock(tx_dup.as_raw_fd()) == nb_before && nonblock(rx_dup.as_raw_fd()) == nb_before
    } else {
        true
    };
    let left = epoll_fds(epfd);
    let epoll_clean = !left.contains(&txfd) && !left.contains(&rxfd) || !end_inner && !finished;
    // the released fds can be adapted again
    let mut readapt = true;
    if end_inner && finished {
        let fds: Vec<UnixStream> = back.borrow_mut().drain(..).flatten().collect();
        for f in fds {
            match handle.adapt_io(f) {
                Ok(a) => drop(a),
                Err(_) => readapt = false,
            }
        }
    }
    format!(
        "made_nb={} finished={} bytes_ok={} flags_ok={} epoll_clean={} readapt={} | {}",
        made_nb as u8, finished as u8, bytes_ok as u8, flags_ok as u8, epoll_clean as u8, readapt as u8,
        evlog.borrow().join(" ")
    )
}

/// The same fd adapted twice (finding F16): the second adapt_io() fails (the poller refuses a second registration of one fd) and
/// must leave everything as it was - in particular the first adapter's registration: a task waiting on it is still woken.
struct SharedStream(Rc<UnixStream>);
impl std::os::fd::AsFd for SharedStream {
    fn as_fd(&self) -> std::os::fd::BorrowedFd<'_> {
        self.0.as_fd()
    }
}
fn run_dup_case(line: &str) -> String {
    use std::io::Write;
    let nb_before = line.trim() == "1";
    let mut event_loop: EventLoop<'static, ()> = EventLoop::try_new().expect("loop");
    let epfd = event_loop.as_raw_fd();
    let handle = event_loop.handle();
    let (exec, sched) = executor::<u8>().expect("executor");
    let woken = Rc::new(RefCell::new(0u8));
    let w2 = woken.clone();
    handle.insert_source(exec, move |v, _, _| *w2.borrow_mut() = v).expect("insert");
    let (rx, mut tx) = UnixStream::pair().expect("pair");
    let rxfd = rx.as_raw_fd();
    set_nonblock(rxfd, nb_before);
    let rx = Rc::new(rx);
    let mut first = handle.adapt_io(SharedStream(rx.clone())).expect("first adapt");
    let second_err = handle.adapt_io(SharedStream(rx.clone())).is_err();
    let still_nb = nonblock(rxfd);
    let registered_after_failure = epoll_fds(epfd).contains(&rxfd);
    sched
        .schedule(async move {
            first.readable().await;
            drop(first);
            7u8
        })
        .expect("schedule");
    let _ = event_loop.dispatch(Some(Duration::ZERO), &mut ());
    let _ = tx.write_all(b"x");
    let mut n = 0;
    while *woken.borrow() == 0 && n < 40 {
        let _ = event_loop.dispatch(Some(Duration::from_millis(10)), &mut ());
        n += 1;
    }
    let first_woken = *woken.borrow() == 7;
    let epoll_clean = !epoll_fds(epfd).contains(&rxfd);
    let flags_ok = nonblock(rxfd) == nb_before;
    format!(
        "second_err={} still_nb={} registered_after_failure={} first_woken={} epoll_clean={} flags_ok={}",
        second_err as u8, still_nb as u8, registered_after_failure as u8, first_woken as u8, epoll_clean as u8, flags_ok as u8
    )
}

/// Poller key of an adapter against the keys of the other occupants of its slot (C20): k timers are inserted and removed one after the
/// other (each takes the vacated slot), then an fd is adapted (same slot), released, and one more timer inserted.
/// Output: `pre=<keys> adapter=<key the OS poller holds for the fd> post=<key> woken=<0|1>`
fn run_adaptkey_case(line: &str) -> String {
    use std::io::Write;
    let ws: Vec<&str> = line.split_whitespace().collect();
    let k: usize = ws.first().and_then(|s| s.parse().ok()).unwrap_or(0);
    let end_inner = ws.get(1) == Some(&"inner");
    let mut event_loop: EventLoop<'static, ()> = EventLoop::try_new().expect("loop");
    let epfd = event_loop.as_raw_fd();
    let handle = event_loop.handle();
    let (exec, sched) = executor::<u8>().expect("executor");
    let woken = Rc::new(RefCell::new(0u8));
    let w2 = woken.clone();
    handle.insert_source(exec, move |v, _, _| *w2.borrow_mut() = v).expect("insert");
    let mut pre = vec![];
    for _ in 0..k {
        let t = handle
            .insert_source(calloop::timer::Timer::from_duration(Duration::from_secs(3600)), |_, _, _| calloop::timer::TimeoutAction::Drop)
            .expect("timer");
        pre.push(calloop::verif::registration_token_key(&t).to_string());
        handle.remove(t);
    }
    let (rx, mut tx) = UnixStream::pair().expect("pair");
    let rxfd = rx.as_raw_fd();
    let mut a = handle.adapt_io(rx).expect("adapt");
    let text = std::fs::read_to_string(format!("/proc/self/fdinfo/{}", epfd)).unwrap_or_default();
    let mut adapter_key = "none".to_string();
    for l in text.lines().filter(|l| l.starts_with("tfd:")) {
        let f: Vec<&str> = l.split_whitespace().collect();
        if f.get(1).and_then(|s| s.parse::<i32>().ok()) == Some(rxfd) {
            if let Some(d) = f.get(5).and_then(|s| u64::from_str_radix(s, 16).ok()) {
                adapter_key = d.to_string();
            }
        }
    }
    let back: Rc<RefCell<Option<UnixStream>>> = Rc::new(RefCell::new(None));
    let b2 = back.clone();
    sched
        .schedule(async move {
            a.readable().await;
            if end_inner {
                *b2.borrow_mut() = Some(a.into_inner());
            } else {
                drop(a);
            }
            7u8
        })
        .expect("schedule");
    let _ = event_loop.dispatch(Some(Duration::ZERO), &mut ());
    let _ = tx.write_all(b"x");
    let mut n = 0;
    while *woken.borrow() == 0 && n < 40 {
        let _ = event_loop.dispatch(Some(Duration::from_millis(10)), &mut ());
        n += 1;
    }
    let post = handle
        .insert_source(calloop::timer::Timer::from_duration(Duration::from_secs(3600)), |_, _, _| calloop::timer::TimeoutAction::Drop)
        .map(|t| calloop::verif::registration_token_key(&t).to_string())
        .unwrap_or_else(|_| "err".into());
    format!("pre={} adapter={} post={} woken={}", pre.join(","), adapter_key, post, (*woken.borrow() == 7) as u8)
}

pub fn run_adaptkey() {
    crate::for_each_line(|l| {
        let r = std::panic::catch_unwind(|| run_adaptkey_case(l)).unwrap_or_else(|_| "PANIC".to_string());
        println!("{}", r);
    });
}

/// A request/response exchange on ONE adapter (C17): the task writes a request, closes its write side (`poll_close`, which for this adapter
/// is a flush), and then reads the peer's answer - which arrives only after the first read attempt found nothing.
/// Output: wrote=<n> closed=<0|1> read=<bytes as text> finished=<0|1>
struct CloseThenRead<'a> {
    io: &'a mut calloop::io::Async<'static, UnixStream>,
    stage: u8,
    got: Vec<u8>,
    out: Rc<RefCell<String>>,
}
impl Future for CloseThenRead<'_> {
    type Output = ();
    fn poll(mut self: Pin<&mut Self>, cx: &mut Context<'_>) -> Poll<()> {
        loop {
            let this = &mut *self;
            match this.stage {
                0 => match Pin::new(&mut *this.io).poll_write(cx, b"req") {
                    Poll::Ready(Ok(n)) => {
                        this.out.borrow_mut().push_str(&format!("wrote={} ", n));
                        this.stage = 1;
                    }
                    Poll::Ready(Err(_)) => return Poll::Ready(()),
                    Poll::Pending => return Poll::Pending,
                },
                1 => match Pin::new(&mut *this.io).poll_close(cx) {
                    Poll::Ready(r) => {
                        this.out.borrow_mut().push_str(&format!("closed={} ", r.is_ok() as u8));
                        this.stage = 2;
                    }
                    Poll::Pending => return Poll::Pending,
                },
                _ => {
                    let mut buf = [0u8; 8];
                    match Pin::new(&mut *this.io).poll_read(cx, &mut buf) {
                        Poll::Ready(Ok(k)) => {
                            this.got.extend_from_slice(&buf[..k]);
                            if this.got.len() >= 3 || k == 0 {
                                let txt = String::from_utf8_lossy(&this.got).to_string();
                                this.out.borrow_mut().push_str(&format!("read={} ", txt));
                                return Poll::Ready(());
                            }
                        }
                        Poll::Ready(Err(e)) => {
                            this.out.borrow_mut().push_str(&format!("read=ERR({:?}) ", e.kind()));
                            return Poll::Ready(());
                        }
                        Poll::Pending => return Poll::Pending,
                    }
                }
            }
        }
    }
}

fn run_close_case(_line: &str) -> String {
    use std::io::{Read, Write};
    let mut event_loop: EventLoop<'static, ()> = EventLoop::try_new().expect("loop");
    let handle = event_loop.handle();
    let (exec, sched) = executor::<u8>().expect("executor");
    let done = Rc::new(RefCell::new(0u8));
    let d2 = done.clone();
    handle.insert_source(exec, move |v, _, _| *d2.borrow_mut() = v).expect("insert");
    let (ours, mut peer) = UnixStream::pair().expect("pair");
    let mut a = handle.adapt_io(ours).expect("adapt");
    let out = Rc::new(RefCell::new(String::new()));
    let o2 = out.clone();
    sched
        .schedule(async move {
            CloseThenRead { io: &mut a, stage: 0, got: vec![], out: o2 }.await;
            7u8
        })
        .expect("schedule");
    // the task writes, closes and parks in its first read; only then does the peer answer
    for _ in 0..3 {
        let _ = event_loop.dispatch(Some(Duration::ZERO), &mut ());
    }
    let mut req = [0u8; 3];
    let _ = peer.read_exact(&mut req);
    let _ = peer.write_all(b"abc");
    let mut n = 0;
    while *done.borrow() == 0 && n < 40 {
        let _ = event_loop.dispatch(Some(Duration::from_millis(10)), &mut ());
        n += 1;
    }
    let finished = *done.borrow() == 7;
    let text = out.borrow().clone();
    format!("{}finished={}", text, finished as u8)
}

pub fn run_close() {
    crate::for_each_line(|l| {
        let r = std::panic::catch_unwind(|| run_close_case(l)).unwrap_or_else(|_| "PANIC".to_string());
        println!("{}", r);
    });
}

pub fn run_dup() {
    crate::for_each_line(|l| {
        let r = std::panic::catch_unwind(|| run_dup_case(l)).unwrap_or_else(|_| "PANIC".to_string());
        println!("{}", r);
    });
}

pub fn run() {
    crate::for_each_line(|l| {
        let r = std::panic::catch_unwind(|| run_case(l)).unwrap_or_else(|_| "PANIC".to_string());
        println!("{}", r);
    });
}
