//! Baton scheduler: real OS threads, one of which runs at a time. Every thread parks at each yield point
//! (`calloop::verif::yield_point` in the library, `yield_here` in harness code) *before* the shared-memory
//! effect that follows it; `step(i)` lets thread i perform that effect and run on to its next yield point.
use std::cell::Cell;
use std::sync::{Arc, Condvar, Mutex};
use std::time::{Duration, Instant};

#[derive(Clone, Copy, Debug, PartialEq, Eq)]
pub enum Status {
    Parked(u32),
    Running,
    Finished,
    Blocked, // in a native blocking call (no yield point reached, kernel state S)
}

#[derive(Clone, Copy, Debug, PartialEq, Eq)]
pub enum StepResult {
    Ran(u32),     // performed the effect at this yield id and parked again / finished
    Finished,     // thread had already finished: stutter
    BlockedNow(u32), // performed the effect at this yield id and then blocked natively
    StillBlocked, // thread is blocked natively: stutter
}

struct TState {
    status: Status,
    granted: bool,
    os_tid: i32,
}

struct Shared {
    threads: Vec<TState>,
}

pub struct Sched {
    sh: Arc<(Mutex<Shared>, Condvar)>,
    handles: Vec<Option<std::thread::JoinHandle<()>>>,
}

thread_local! {
    static ME: Cell<Option<usize>> = const { Cell::new(None) };
}
static CURRENT: Mutex<Option<Arc<(Mutex<Shared>, Condvar)>>> = Mutex::new(None);

fn park(id: u32) {
    let me = match ME.with(|m| m.get()) {
        Some(i) => i,
        None => return,
    };
    let sh = match CURRENT.lock().unwrap_or_else(|e| e.into_inner()).clone() {
        Some(s) => s,
        None => return,
    };
    let (m, cv) = &*sh;
    let mut g = m.lock().unwrap_or_else(|e| e.into_inner());
    g.threads[me].status = Status::Parked(id);
    cv.notify_all();
    while !g.threads[me].granted {
        g = cv.wait(g).unwrap_or_else(|e| e.into_inner());
    }
    g.threads[me].granted = false;
    g.threads[me].status = Status::Running;
}

/// a yield point in harness code
pub fn yield_here(id: u32) {
    park(id);
}

fn thread_state(tid: i32) -> char {
    let p = format!("/proc/self/task/{}/stat", tid);
    if let Ok(s) = std::fs::read_to_string(p) {
        if let Some(i) = s.rfind(')') {
            return s[i + 1..].trim_start().chars().next().unwrap_or('?');
        }
    }
    '?'
}

impl Sched {
    pub fn new(n: usize) -> Sched {
        let sh = Arc::new((
            Mutex::new(Shared {
                threads: (0..n)
                    .map(|_| TState {
                        status: Status::Running,
                        granted: false,
                        os_tid: 0,
                    })
                    .collect(),
            }),
            Condvar::new(),
        ));
        *CURRENT.lock().unwrap_or_else(|e| e.into_inner()) = Some(sh.clone());
        calloop::verif::set_yield_hook(Some(Box::new(park)));
        Sched {
            sh,
            handles: (0..n).map(|_| None).collect(),
        }
    }

    /// start thread i; it parks at yield id 0 before running `f`
    pub fn spawn<F: FnOnce() + Send + 'static>(&mut self, i: usize, f: F) {
        let sh = self.sh.clone();
        let h = std::thread::spawn(move || {
            ME.with(|m| m.set(Some(i)));
            {
                let (m, _) = &*sh;
                m.lock().unwrap_or_else(|e| e.into_inner()).threads[i].os_tid = unsafe { libc::syscall(libc::SYS_gettid) as i32 };
            }
            park(0);
            let r = std::panic::catch_unwind(std::panic::AssertUnwindSafe(f));
            let _ = r;
            let (m, cv) = &*sh;
            let mut g = m.lock().unwrap_or_else(|e| e.into_inner());
            g.threads[i].status = Status::Finished;
            cv.notify_all();
        });
        self.handles[i] = Some(h);
        // wait until it is parked at its start
        let (m, cv) = &*self.sh;
        let mut g = m.lock().unwrap_or_else(|e| e.into_inner());
        while !matches!(g.threads[i].status, Status::Parked(_) | Status::Finished) {
            g = cv.wait(g).unwrap_or_else(|e| e.into_inner());
        }
    }

    pub fn status(&self, i: usize) -> Status {
        self.sh.0.lock().unwrap_or_else(|e| e.into_inner()).threads[i].status
    }

    /// let thread i perform its next effect and run to its next yield point
    pub fn step(&self, i: usize) -> StepResult {
        let (m, cv) = &*self.sh;
        let mut g = m.lock().unwrap_or_else(|e| e.into_inner());
        let id = match g.threads[i].status {
            Status::Finished => return StepResult::Finished,
            Status::Blocked => return StepResult::StillBlocked,
            Status::Running => {
                // a previously blocked thread that woke up but has not parked yet: wait for it below
                u32::MAX
            }
            Status::Parked(id) => {
                g.threads[i].granted = true;
                g.threads[i].status = Status::Running;
                cv.notify_all();
                id
            }
        };
        let tid = g.threads[i].os_tid;
        let start = Instant::now();
        let mut sleepy = 0;
        loop {
            let (g2, _) = cv.wait_timeout(g, Duration::from_millis(10)).unwrap_or_else(|e| e.into_inner());
            g = g2;
            match g.threads[i].status {
                Status::Parked(_) | Status::Finished => return StepResult::Ran(id),
                _ => {}
            }
            if start.elapsed() > Duration::from_millis(40) {
                // a merely slow thread shows R; a thread inside a blocking syscall shows S
                if thread_state(tid) == 'S' {
                    sleepy += 1;
                } else {
                    sleepy = 0;
                }
                if sleepy >= 3 {
                    g.threads[i].status = Status::Blocked;
                    return StepResult::BlockedNow(id);
                }
            }
            if start.elapsed() > Duration::from_secs(20) {
                g.threads[i].status = Status::Blocked;
                return StepResult::BlockedNow(id);
            }
        }
    }

    /// a blocked thread may have been released by another thread's step: returns true when it has parked or finished
    pub fn refresh_blocked(&self, i: usize) -> bool {
        let (m, cv) = &*self.sh;
        let mut g = m.lock().unwrap_or_else(|e| e.into_inner());
        if matches!(g.threads[i].status, Status::Parked(_) | Status::Finished) {
            return true;
        }
        // the thread itself overwrites Blocked with Parked/Finished when it gets there; give it a moment
        let tid = g.threads[i].os_tid;
        let start = Instant::now();
        loop {
            if matches!(g.threads[i].status, Status::Parked(_) | Status::Finished) {
                return true;
            }
            // still inside the blocking call (kernel state S and not parked) for a while: it was not released
            if thread_state(tid) == 'S' && start.elapsed() > Duration::from_millis(25) {
                return false;
            }
            let (g2, _) = cv.wait_timeout(g, Duration::from_millis(2)).unwrap_or_else(|e| e.into_inner());
            g = g2;
            if start.elapsed() > Duration::from_millis(500) {
                return false;
            }
        }
    }

    /// threads currently marked as blocked in a native call
    pub fn blocked_threads(&self) -> Vec<usize> {
        let g = self.sh.0.lock().unwrap_or_else(|e| e.into_inner());
        g.threads.iter().enumerate().filter(|(_, t)| t.status == Status::Blocked).map(|(i, _)| i).collect()
    }

    pub fn all_finished(&self) -> bool {
        let g = self.sh.0.lock().unwrap_or_else(|e| e.into_inner());
        g.threads.iter().all(|t| t.status == Status::Finished)
    }

    /// detach: stop managing (threads still parked are released and run freely to their end)
    pub fn finish(mut self) {
        calloop::verif::set_yield_hook(None);
        *CURRENT.lock().unwrap_or_else(|e| e.into_inner()) = None;
        {
            let (m, cv) = &*self.sh;
            let mut g = m.lock().unwrap_or_else(|e| e.into_inner());
            for t in g.threads.iter_mut() {
                t.granted = true;
            }
            cv.notify_all();
        }
        for h in self.handles.iter_mut() {
            if let Some(h) = h.take() {
                // a thread blocked forever (deadlock finding) is left behind
                let _ = h;
            }
        }
    }
}
