//! Signals source in a single-threaded process (C19). One case per line:
//!   ops separated by ';' :  new a,b | add a | rem a | set a,b | drop | raise a | disp     (signal names: hup usr1 usr2 cont urg winch)
//! Output per op: `<blocked bits>/<handler counts>/<reported this op>` joined by ' '.
use calloop::signals::{Signal, Signals};
use calloop::{Dispatcher, EventLoop};
use std::cell::RefCell;
use std::rc::Rc;
use std::sync::atomic::{AtomicU32, Ordering};
use std::time::Duration;

const SIGS: [(&str, Signal, i32); 6] = [
    ("hup", Signal::SIGHUP, libc::SIGHUP),
    ("usr1", Signal::SIGUSR1, libc::SIGUSR1),
    ("usr2", Signal::SIGUSR2, libc::SIGUSR2),
    ("cont", Signal::SIGCONT, libc::SIGCONT),
    ("urg", Signal::SIGURG, libc::SIGURG),
    ("winch", Signal::SIGWINCH, libc::SIGWINCH),
];
static COUNTS: [AtomicU32; 6] = [AtomicU32::new(0), AtomicU32::new(0), AtomicU32::new(0), AtomicU32::new(0), AtomicU32::new(0), AtomicU32::new(0)];

extern "C" fn handler(signo: libc::c_int) {
    for (i, (_, _, n)) in SIGS.iter().enumerate() {
        if *n == signo {
            COUNTS[i].fetch_add(1, Ordering::SeqCst);
        }
    }
}

fn install_handlers() {
    unsafe {
        for (_, _, n) in SIGS.iter() {
            let mut sa: libc::sigaction = std::mem::zeroed();
            sa.sa_sigaction = handler as usize;
            libc::sigemptyset(&mut sa.sa_mask);
            sa.sa_flags = 0;
            libc::sigaction(*n, &sa, std::ptr::null_mut());
        }
    }
}

fn blocked_bits() -> String {
    unsafe {
        let mut cur: libc::sigset_t = std::mem::zeroed();
        libc::pthread_sigmask(libc::SIG_BLOCK, std::ptr::null(), &mut cur);
        SIGS.iter().map(|(_, _, n)| if libc::sigismember(&cur, *n) == 1 { '1' } else { '0' }).collect()
    }
}

fn unblock_all() {
    unsafe {
        let mut set: libc::sigset_t = std::mem::zeroed();
        libc::sigemptyset(&mut set);
        for (_, _, n) in SIGS.iter() {
            libc::sigaddset(&mut set, *n);
        }
        libc::pthread_sigmask(libc::SIG_UNBLOCK, &set, std::ptr::null_mut());
    }
}

fn parse_sigs(s: &str) -> Vec<Signal> {
    s.split(',').filter_map(|n| SIGS.iter().find(|(name, _, _)| *name == n).map(|(_, s, _)| *s)).collect()
}

fn run_case(line: &str) -> String {
    unblock_all();
    for c in COUNTS.iter() {
        c.store(0, Ordering::SeqCst);
    }
    let mut event_loop: EventLoop<'static, ()> = EventLoop::try_new().expect("loop");
    let handle = event_loop.handle();
    let reported: Rc<RefCell<Vec<String>>> = Rc::new(RefCell::new(vec![]));
    let mut disp: Option<Dispatcher<'static, Signals, ()>> = None;
    let mut token = None;
    let mut out = vec![];
    let mypid = std::process::id();
    for op in line.split(';') {
        let ws: Vec<&str> = op.split_whitespace().collect();
        if ws.is_empty() {
            continue;
        }
        reported.borrow_mut().clear();
        match ws[0] {
            "new" => {
                if disp.is_none() {
                    let src = Signals::new(&parse_sigs(ws.get(1).unwrap_or(&""))).expect("signals");
                    let rep = reported.clone();
                    let d = Dispatcher::new(src, move |ev, _, _: &mut ()| {
                        let name = SIGS.iter().find(|(_, s, _)| *s == ev.signal()).map(|(n, _, _)| *n).unwrap_or("?");
                        let own = if ev.pid() == mypid { "" } else { "!foreignpid" };
                        rep.borrow_mut().push(format!("{}{}", name, own));
                    });
                    token = handle.register_dispatcher(d.clone()).ok();
                    disp = Some(d);
                }
            }
            "add" => {
                if let Some(d) = &disp {
                    let _ = d.as_source_mut().add_signals(&parse_sigs(ws.get(1).unwrap_or(&"")));
                }
            }
            "rem" => {
                if let Some(d) = &disp {
                    let _ = d.as_source_mut().remove_signals(&parse_sigs(ws.get(1).unwrap_or(&"")));
                }
            }
            "set" => {
                if let Some(d) = &disp {
                    let _ = d.as_source_mut().set_signals(&parse_sigs(ws.get(1).unwrap_or(&"")));
                }
            }
            "drop" => {
                if let Some(d) = disp.take() {
                    if let Some(t) = token.take() {
                        handle.remove(t);
                    }
                    drop(d.into_source_inner());
                }
            }
            "raise" => {
                if let Some((_, _, n)) = SIGS.iter().find(|(name, _, _)| Some(name) == ws.get(1)) {
                    unsafe {
                        libc::raise(*n);
                    }
                }
            }
            "disp" => {
                if disp.is_some() {
                    let _ = event_loop.dispatch(Some(Duration::ZERO), &mut ());
                }
            }
            _ => {}
        }
        let counts: Vec<String> = COUNTS.iter().map(|c| c.load(Ordering::SeqCst).to_string()).collect();
        out.push(format!("{}/{}/{}", blocked_bits(), counts.join(","), reported.borrow().join(",")));
    }
    if let Some(d) = disp.take() {
        if let Some(t) = token.take() {
            handle.remove(t);
        }
        drop(d.into_source_inner());
    }
    unblock_all();
    out.join(" ")
}

pub fn run() {
    install_handlers();
    crate::for_each_line(|l| {
        let r = std::panic::catch_unwind(|| run_case(l)).unwrap_or_else(|_| "PANIC".to_string());
        println!("{}", r);
    });
}
