//! Token codec / TokenFactory / PostAction combination through the verification accessors.
use calloop::verif as v;
use calloop::PostAction;
use std::panic::{catch_unwind, AssertUnwindSafe};

fn p32(s: &str) -> u32 {
    s.parse().unwrap()
}
fn p16(s: &str) -> u16 {
    s.parse().unwrap()
}
fn ts(t: (u32, u16, u16)) -> String {
    format!("{} {} {}", t.0, t.1, t.2)
}
fn pa(n: &str) -> PostAction {
    match n {
        "0" => PostAction::Continue,
        "1" => PostAction::Reregister,
        "2" => PostAction::Disable,
        _ => PostAction::Remove,
    }
}
fn pa_code(a: PostAction) -> u8 {
    match a {
        PostAction::Continue => 0,
        PostAction::Reregister => 1,
        PostAction::Disable => 2,
        PostAction::Remove => 3,
    }
}

fn handle(ws: &[&str]) -> String {
    match ws {
        ["pack", a, b, c] => format!("{}", v::token_pack(p32(a), p16(b), p16(c))),
        ["unpack", k] => ts(v::token_unpack(k.parse::<u64>().unwrap() as usize)),
        ["incver", a, b, c] => ts(v::token_increment_version(p32(a), p16(b), p16(c))),
        ["incsub", a, b, c] => {
            match catch_unwind(|| v::token_increment_sub_id(p32(a), p16(b), p16(c))) {
                Ok(t) => ts(t),
                Err(_) => "PANIC".into(),
            }
        }
        ["forget", a, b, c] => ts(v::token_forget_sub_id(p32(a), p16(b), p16(c))),
        ["same", a, b, c, d, e, f] => {
            if v::token_same_source_as((p32(a), p16(b), p16(c)), (p32(d), p16(e), p16(f))) {
                "1".into()
            } else {
                "0".into()
            }
        }
        ["new", a] => match v::token_new(a.parse::<u64>().unwrap() as usize) {
            Some(t) => ts(t),
            None => "ERR".into(),
        },
        ["factory", a, b, c, n] => {
            let n: usize = n.parse().unwrap();
            let r = catch_unwind(AssertUnwindSafe(|| {
                let mut f = v::token_factory(p32(a), p16(b), p16(c));
                let mut keys = Vec::with_capacity(n);
                for _ in 0..n {
                    keys.push(v::token_key(&f.token()) as u64);
                }
                keys
            }));
            match r {
                Err(_) => "PANIC".into(),
                Ok(keys) => {
                    let mut out = keys.len().to_string();
                    for k in keys {
                        out.push(' ');
                        out.push_str(&k.to_string());
                    }
                    out
                }
            }
        }
        ["bitor", a, b] => format!("{}", pa_code(pa(a) | pa(b))),
        ["bitor_assign", a, b] => {
            let mut x = pa(a);
            x |= pa(b);
            format!("{}", pa_code(x))
        }
        _ => "BADCASE".into(),
    }
}

pub fn run() {
    crate::for_each_line(|l| {
        let ws: Vec<&str> = l.split_whitespace().collect();
        println!("{}", handle(&ws));
    });
}
