//! The life of `Generic` sources against the real OS poller (C16): histories of new / set / register / reregister / unregister /
//! unwrap / drop over several Generic objects and eventfds (two objects may wrap the same fd). Same case lines as
//! ocaml/m_genlife.ml; after every op the result code and the kernel's own epoll table (/proc/self/fdinfo/<epfd>) are printed.
//!
//! `Generic::{register,reregister,unregister}` need the loop's `Poll` and a `TokenFactory`: they are reached through a driver
//! source whose `reregister` performs the queued operation (the loop calls it for `LoopHandle::update`). The driver is the only
//! source of its loop: slot 0, version 0, so the key of a token is its sub-id.
//! Protocol (the loop's own, followed on both sides): unregister / reregister only for a Generic that is registered (code 3).
use calloop::generic::Generic;
use calloop::{Dispatcher, EventLoop, EventSource, Interest, Mode, Poll, PostAction, Readiness, Token, TokenFactory};
use std::cell::RefCell;
use std::collections::HashMap;
use std::os::fd::{AsFd, AsRawFd, BorrowedFd, OwnedFd};
use std::rc::Rc;

#[derive(Debug)]
struct SharedFd(Rc<OwnedFd>);
impl AsFd for SharedFd {
    fn as_fd(&self) -> BorrowedFd<'_> {
        self.0.as_fd()
    }
}

#[derive(Clone, Copy, Debug)]
enum PollOp {
    Reg(u64, u64),
    Rereg(u64, u64),
    Unreg(u64),
}

struct Driver {
    gens: HashMap<u64, Generic<SharedFd>>,
    registered: HashMap<u64, bool>,
    next: Option<PollOp>,
    code: u8,
}

impl EventSource for Driver {
    type Event = ();
    type Metadata = ();
    type Ret = ();
    type Error = std::io::Error;
    fn process_events<F>(&mut self, _: Readiness, _: Token, _: F) -> Result<PostAction, Self::Error>
    where
        F: FnMut((), &mut ()),
    {
        Ok(PostAction::Continue)
    }
    fn register(&mut self, _: &mut Poll, _: &mut TokenFactory) -> calloop::Result<()> {
        Ok(())
    }
    fn reregister(&mut self, poll: &mut Poll, tf: &mut TokenFactory) -> calloop::Result<()> {
        let op = match self.next.take() {
            Some(op) => op,
            None => return Ok(()),
        };
        self.code = match op {
            PollOp::Reg(g, k) => match self.gens.get_mut(&g) {
                None => 2,
                Some(gen) => {
                    for _ in 0..k {
                        let _ = tf.token();
                    }
                    if gen.register(poll, tf).is_ok() {
                        self.registered.insert(g, true);
                        0
                    } else {
                        1
                    }
                }
            },
            PollOp::Rereg(g, k) => match self.gens.get_mut(&g) {
                None => 2,
                Some(gen) => {
                    if !self.registered.get(&g).copied().unwrap_or(false) {
                        3
                    } else {
                        for _ in 0..k {
                            let _ = tf.token();
                        }
                        if gen.reregister(poll, tf).is_ok() {
                            0
                        } else {
                            1
                        }
                    }
                }
            },
            PollOp::Unreg(g) => match self.gens.get_mut(&g) {
                None => 2,
                Some(gen) => {
                    if !self.registered.get(&g).copied().unwrap_or(false) {
                        3
                    } else if gen.unregister(poll).is_ok() {
                        self.registered.insert(g, false);
                        0
                    } else {
                        1
                    }
                }
            },
        };
        Ok(())
    }
    fn unregister(&mut self, _: &mut Poll) -> calloop::Result<()> {
        Ok(())
    }
}

fn interest(c: u64) -> Interest {
    Interest { readable: c & 1 != 0, writable: c & 2 != 0 }
}
fn mode(c: u64) -> Mode {
    match c {
        0 => Mode::Level,
        1 => Mode::Edge,
        _ => Mode::OneShot,
    }
}

fn table(epfd: i32, fdnum: &HashMap<i32, u64>) -> String {
    let text = std::fs::read_to_string(format!("/proc/self/fdinfo/{}", epfd)).unwrap_or_default();
    let mut codes: Vec<u128> = vec![];
    for line in text.lines() {
        if !line.starts_with("tfd:") {
            continue;
        }
        let ws: Vec<&str> = line.split_whitespace().collect();
        let tfd: i32 = ws.get(1).and_then(|s| s.parse().ok()).unwrap_or(-1);
        let events = ws.get(3).and_then(|s| u32::from_str_radix(s, 16).ok()).unwrap_or(0);
        let data = ws.get(5).and_then(|s| u64::from_str_radix(s, 16).ok()).unwrap_or(0);
        if data == u64::MAX {
            continue; // polling's own notifier
        }
        let fdid = fdnum.get(&tfd).copied().unwrap_or(999_999);
        let int = ((events & 0x1 != 0) as u128) + 2 * ((events & 0x4 != 0) as u128);
        let md: u128 = if events & (1 << 30) != 0 {
            2
        } else if events & (1 << 31) != 0 {
            1
        } else {
            0
        };
        codes.push((((fdid as u128) * 4 + int) * 4 + md) * (1u128 << 64) + data as u128);
    }
    codes.sort_unstable();
    if codes.is_empty() {
        "-".to_string()
    } else {
        codes.iter().map(|c| c.to_string()).collect::<Vec<_>>().join(",")
    }
}

fn run_case(line: &str) -> String {
    let mut event_loop: EventLoop<'static, ()> = EventLoop::try_new().expect("event loop");
    let epfd = event_loop.as_raw_fd();
    let handle = event_loop.handle();
    let disp = Dispatcher::new(
        Driver { gens: HashMap::new(), registered: HashMap::new(), next: None, code: 0 },
        |_, _, _: &mut ()| (),
    );
    let token = handle.register_dispatcher(disp.clone()).expect("insert driver");
    let fds: RefCell<HashMap<u64, Rc<OwnedFd>>> = RefCell::new(HashMap::new());
    let mut fdnum: HashMap<i32, u64> = HashMap::new();
    let mut out: Vec<String> = vec![];
    for w in line.split_whitespace() {
        let kind = w.as_bytes()[0] as char;
        let f: Vec<u64> = w[1..].split(':').filter_map(|x| x.parse().ok()).collect();
        let code: u8 = match (kind, f.as_slice()) {
            ('n', [g, fd, it, md]) => {
                let rc = {
                    let mut m = fds.borrow_mut();
                    m.entry(*fd)
                        .or_insert_with(|| {
                            Rc::new(
                                rustix::event::eventfd(0, rustix::event::EventfdFlags::CLOEXEC | rustix::event::EventfdFlags::NONBLOCK)
                                    .expect("eventfd"),
                            )
                        })
                        .clone()
                };
                fdnum.insert(rc.as_raw_fd(), *fd);
                let mut d = disp.as_source_mut();
                if d.gens.contains_key(g) {
                    2
                } else {
                    d.gens.insert(*g, Generic::new(SharedFd(rc), interest(*it), mode(*md)));
                    d.registered.insert(*g, false);
                    0
                }
            }
            ('s', [g, it, md]) => {
                let mut d = disp.as_source_mut();
                match d.gens.get_mut(g) {
                    Some(gen) => {
                        gen.interest = interest(*it);
                        gen.mode = mode(*md);
                        0
                    }
                    None => 2,
                }
            }
            ('r', [g, k]) | ('m', [g, k]) => {
                {
                    let mut d = disp.as_source_mut();
                    d.next = Some(if kind == 'r' { PollOp::Reg(*g, *k) } else { PollOp::Rereg(*g, *k) });
                    d.code = 9;
                }
                let _ = handle.update(&token);
                let c = disp.as_source_ref().code;
                c
            }
            ('u', [g]) => {
                {
                    let mut d = disp.as_source_mut();
                    d.next = Some(PollOp::Unreg(*g));
                    d.code = 9;
                }
                let _ = handle.update(&token);
                let c = disp.as_source_ref().code;
                c
            }
            ('w', [g]) => {
                let gen = disp.as_source_mut().gens.remove(g);
                match gen {
                    Some(gen) => {
                        disp.as_source_mut().registered.remove(g);
                        let _file = gen.unwrap();
                        0
                    }
                    None => 2,
                }
            }
            ('d', [g]) => {
                let gen = disp.as_source_mut().gens.remove(g);
                match gen {
                    Some(gen) => {
                        disp.as_source_mut().registered.remove(g);
                        drop(gen);
                        0
                    }
                    None => 2,
                }
            }
            _ => 8,
        };
        out.push(format!("{}/{}", code, table(epfd, &fdnum)));
    }
    drop(event_loop);
    out.join(" ")
}

pub fn run() {
    crate::for_each_line(|l| {
        let r = std::panic::catch_unwind(|| run_case(l)).unwrap_or_else(|_| "PANIC".to_string());
        println!("{}", r);
    });
}
