//! Ping source under the baton scheduler (C03).
//! Case line:  <ndispatch> [cbpings] | prog1;prog2;... | schedule      (cbpings: the first n callbacks ping their own source)      progs: strings over p (ping) c (clone) x (drop); schedule: digits
//! Output: the executed steps `tid:yieldid`, `CB` (callback), `RM` (source gone), and a summary.
use crate::sched::{yield_here, Sched, StepResult};
use calloop::ping::{make_ping, Ping};
use calloop::EventLoop;
use std::sync::{Arc, Mutex};
use std::time::Duration;

type Log = Arc<Mutex<Vec<String>>>;

fn run_case(line: &str) -> String {
    let parts: Vec<&str> = line.split('|').map(|s| s.trim()).collect();
    if parts.len() != 3 {
        return "BAD".into();
    }
    let head: Vec<usize> = parts[0].split_whitespace().filter_map(|w| w.parse().ok()).collect();
    let ndisp: usize = head.first().copied().unwrap_or(0);
    let cbpings: usize = head.get(1).copied().unwrap_or(0);
    let progs: Vec<String> = parts[1].split(';').map(|s| s.trim().to_string()).filter(|s| !s.is_empty() || true).collect();
    let schedule: Vec<usize> = parts[2].chars().filter_map(|c| c.to_digit(10).map(|d| d as usize)).collect();
    let n = progs.len() + 1;
    let log: Log = Arc::new(Mutex::new(vec![]));
    let (ping, source) = make_ping().expect("ping");
    let mut sched = Sched::new(n);
    // loop thread
    {
        let log = log.clone();
        let extra = 3usize;
        // the callback owns a clone of the handle when it is going to ping
        let cb_handle = if cbpings > 0 { Some(ping.clone()) } else { None };
        sched.spawn(0, move || {
            let mut event_loop: EventLoop<'static, ()> = EventLoop::try_new().expect("loop");
            let l2 = log.clone();
            let mut left = cbpings;
            let token = event_loop
                .handle()
                .insert_source(source, move |_, _, _| {
                    l2.lock().unwrap().push("CB".into());
                    if left > 0 {
                        left -= 1;
                        if let Some(p) = cb_handle.as_ref() {
                            p.ping();
                            l2.lock().unwrap().push("P0".into());
                        }
                    }
                })
                .expect("insert");
            let mut alive = true;
            for _ in 0..(ndisp + extra) {
                let _ = event_loop.dispatch(Some(Duration::ZERO), &mut ());
                let now_alive = event_loop.handle().update(&token).is_ok();
                if alive && !now_alive {
                    log.lock().unwrap().push("RM".into());
                }
                alive = now_alive;
            }
            // the loop (with the callback and the handle it may own) outlives the scenario
            std::mem::forget(event_loop);
        });
    }
    // pinger threads: each starts with one handle
    for (i, prog) in progs.iter().enumerate() {
        let mine = ping.clone();
        let prog = prog.clone();
        let log = log.clone();
        sched.spawn(i + 1, move || {
            let mut handles: Vec<Ping> = vec![mine];
            for op in prog.chars() {
                match op {
                    'p' => {
                        if let Some(h) = handles.first() {
                            h.ping();
                            log.lock().unwrap().push(format!("P{}", i + 1));
                        }
                    }
                    'c' => {
                        if let Some(h) = handles.first().cloned() {
                            yield_here(51);
                            handles.push(h);
                        }
                    }
                    'x' => {
                        if !handles.is_empty() {
                            yield_here(50);
                            let h = handles.pop();
                            drop(h);
                        }
                    }
                    _ => {}
                }
            }
            // handles still held at the end stay alive (leaked on purpose: dropping them is an operation)
            std::mem::forget(handles);
        });
    }
    drop(ping);
    // start steps (yield 0) are not part of the schedule
    for i in 0..n {
        sched.step(i);
    }
    let mut hang = false;
    // the step token is placed before whatever the thread logged while it ran
    let do_step = |i: usize, log: &Log, sched: &Sched| {
        let at = log.lock().unwrap().len();
        match sched.step(i) {
            StepResult::Ran(id) => log.lock().unwrap().insert(at, format!("{}:{}", i, id)),
            StepResult::BlockedNow(id) => log.lock().unwrap().insert(at, format!("{}:{}:blocked", i, id)),
            StepResult::Finished | StepResult::StillBlocked => {}
        }
    };
    for &i in &schedule {
        if i < n {
            do_step(i, &log, &sched);
        }
    }
    // finalisation: pingers to their end (in index order), then the loop thread
    let mut guard = 0;
    while !sched.all_finished() && guard < 10000 {
        guard += 1;
        let mut progressed = false;
        for i in (1..n).chain(std::iter::once(0)) {
            if !matches!(sched.status(i), crate::sched::Status::Finished | crate::sched::Status::Blocked) {
                do_step(i, &log, &sched);
                progressed = true;
                break;
            }
        }
        if !progressed {
            hang = true;
            break;
        }
    }
    let out = log.lock().unwrap().join(" ");
    sched.finish();
    if hang {
        format!("{} HANG", out)
    } else {
        out
    }
}

/// Free-running race search (C03, no scheduler, no model): the last two handles of a pinged source are dropped by two threads released at
/// the same instant, over and over. Whatever the schedule, the outstanding ping is delivered once and the source then removes itself.
/// Input: number of rounds. Output: rounds=<n> lost_ping=<round|-> extra_callback=<round|-> not_removed=<round|->
fn run_stress_case(line: &str) -> String {
    use std::sync::atomic::{AtomicUsize, Ordering};
    use std::sync::mpsc;
    let rounds: usize = line.trim().parse().unwrap_or(1000);
    let arrived = Arc::new(AtomicUsize::new(0));
    let (done_tx, done_rx) = mpsc::channel::<()>();
    let mut work_tx = Vec::new();
    let mut threads = Vec::new();
    for _ in 0..2 {
        let (tx, rx) = mpsc::channel::<(usize, Ping)>();
        work_tx.push(tx);
        let arrived = arrived.clone();
        let done_tx = done_tx.clone();
        threads.push(std::thread::spawn(move || {
            while let Ok((round, ping)) = rx.recv() {
                arrived.fetch_add(1, Ordering::SeqCst);
                while arrived.load(Ordering::SeqCst) < 2 * (round + 1) {
                    std::hint::spin_loop();
                }
                drop(ping);
                let _ = done_tx.send(());
            }
        }));
    }
    let mut event_loop: EventLoop<'static, u32> = EventLoop::try_new().expect("loop");
    let handle = event_loop.handle();
    let (mut lost, mut extra, mut kept) = (None, None, None);
    for round in 0..rounds {
        let (ping, source) = make_ping().expect("ping");
        let token = handle.insert_source(source, |(), &mut (), n: &mut u32| *n += 1).expect("insert");
        let other = ping.clone();
        ping.ping();
        let _ = work_tx[0].send((round, ping));
        let _ = work_tx[1].send((round, other));
        let _ = done_rx.recv();
        let _ = done_rx.recv();
        let mut n = 0u32;
        let _ = event_loop.dispatch(Some(Duration::ZERO), &mut n);
        if n == 0 && lost.is_none() {
            lost = Some(round);
        }
        let _ = event_loop.dispatch(Some(Duration::ZERO), &mut n);
        if n > 1 && extra.is_none() {
            extra = Some(round);
        }
        if handle.disable(&token).is_ok() {
            if kept.is_none() {
                kept = Some(round);
            }
            handle.remove(token);
        }
        if lost.is_some() || extra.is_some() || kept.is_some() {
            break;
        }
    }
    drop(work_tx);
    for t in threads {
        let _ = t.join();
    }
    let f = |x: Option<usize>| x.map(|r| r.to_string()).unwrap_or_else(|| "-".into());
    format!("rounds={} lost_ping={} extra_callback={} not_removed={}", rounds, f(lost), f(extra), f(kept))
}

/// The last handle dies with its thread (C03): main drops its handle, a worker holding the last clone pings and then panics. The ping is
/// delivered once and the source removes itself. Output: callbacks=<n> removed=<0|1>
fn run_panic_case(_line: &str) -> String {
    let mut event_loop: EventLoop<'static, u32> = EventLoop::try_new().expect("loop");
    let handle = event_loop.handle();
    let (ping, source) = make_ping().expect("ping");
    let token = handle.insert_source(source, |(), &mut (), n: &mut u32| *n += 1).expect("insert");
    let other = ping.clone();
    drop(ping);
    let prev = std::panic::take_hook();
    std::panic::set_hook(Box::new(|_| {}));
    let h = std::thread::spawn(move || {
        let owned = other;
        owned.ping();
        panic!("the pinger's thread dies");
    });
    let _ = h.join();
    std::panic::set_hook(prev);
    let mut n = 0u32;
    for _ in 0..3 {
        let _ = event_loop.dispatch(Some(Duration::ZERO), &mut n);
    }
    let removed = handle.disable(&token).is_err();
    format!("callbacks={} removed={}", n, removed as u8)
}

pub fn run_panic() {
    crate::for_each_line(|l| {
        let r = std::panic::catch_unwind(|| run_panic_case(l)).unwrap_or_else(|_| "PANIC".to_string());
        println!("{}", r);
    });
}

pub fn run_stress() {
    crate::for_each_line(|l| {
        let r = std::panic::catch_unwind(|| run_stress_case(l)).unwrap_or_else(|_| "PANIC".to_string());
        println!("{}", r);
    });
}

pub fn run() {
    crate::for_each_line(|l| {
        let r = std::panic::catch_unwind(|| run_case(l)).unwrap_or_else(|_| "PANIC".to_string());
        println!("{}", r);
    });
}
