//! Channel source under the baton scheduler (C04).
//! Case line:  <bound|-1> <ndispatch> | prog1;prog2;... | schedule     progs: s (send / try_send next value) b (blocking SyncSender::send) c (clone) x (drop one sender)
//! Values sent by thread t are t*100+k. Output: executed steps `tid:yieldid`, M<v>, CLOSED, RM, FULL<t>, DISC<t>, OK<t> (a blocking send returned Ok); HANG: threads left blocked.
use crate::sched::{yield_here, Sched, StepResult, Status};
use calloop::channel::{channel, sync_channel, Event, Sender, SyncSender};
use calloop::EventLoop;
use std::sync::{Arc, Mutex};
use std::time::Duration;

type Log = Arc<Mutex<Vec<String>>>;

enum AnySender {
    U(Sender<u64>),
    S(SyncSender<u64>),
}
impl AnySender {
    fn clone_it(&self) -> AnySender {
        match self {
            AnySender::U(s) => AnySender::U(s.clone()),
            AnySender::S(s) => AnySender::S(s.clone()),
        }
    }
}

pub fn finalize(sched: &Sched, n: usize, log: &Log) -> bool {
    let mut guard = 0;
    while !sched.all_finished() && guard < 20000 {
        guard += 1;
        let mut progressed = false;
        for i in (1..n).chain(std::iter::once(0)) {
            if !matches!(sched.status(i), Status::Finished | Status::Blocked) {
                do_step(i, log, sched);
                progressed = true;
                break;
            }
        }
        if !progressed {
            // only blocked threads are left: a step of nobody can release them
            return false;
        }
    }
    true
}

pub fn do_step(i: usize, log: &Log, sched: &Sched) -> StepResult {
    let at = log.lock().unwrap().len();
    let r = sched.step(i);
    match r {
        StepResult::Ran(id) => log.lock().unwrap().insert(at, format!("{}:{}", i, id)),
        StepResult::BlockedNow(id) => log.lock().unwrap().insert(at, format!("{}:{}:blocked", i, id)),
        StepResult::Finished | StepResult::StillBlocked => {}
    }
    // a thread blocked in a native call (a full sync channel) may have been released by this step: wait until it has
    // reached its next yield point, so that still only one thread runs at a time
    for j in sched.blocked_threads() {
        if j != i {
            sched.refresh_blocked(j);
        }
    }
    r
}

fn run_case(line: &str) -> String {
    let parts: Vec<&str> = line.split('|').map(|s| s.trim()).collect();
    if parts.len() != 3 {
        return "BAD".into();
    }
    let head: Vec<i64> = parts[0].split_whitespace().filter_map(|w| w.parse().ok()).collect();
    if head.len() != 2 {
        return "BAD".into();
    }
    let (bound, ndisp) = (head[0], head[1] as usize);
    let progs: Vec<String> = parts[1].split(';').map(|s| s.trim().to_string()).collect();
    let schedule: Vec<usize> = parts[2].chars().filter_map(|c| c.to_digit(10).map(|d| d as usize)).collect();
    let n = progs.len() + 1;
    let log: Log = Arc::new(Mutex::new(vec![]));
    let (first, chan) = if bound < 0 {
        let (s, c) = channel::<u64>();
        (AnySender::U(s), c)
    } else {
        let (s, c) = sync_channel::<u64>(bound as usize);
        (AnySender::S(s), c)
    };
    let mut sched = Sched::new(n);
    {
        let log = log.clone();
        sched.spawn(0, move || {
            let mut event_loop: EventLoop<'static, ()> = EventLoop::try_new().expect("loop");
            let l2 = log.clone();
            let token = event_loop
                .handle()
                .insert_source(chan, move |ev, _, _| match ev {
                    Event::Msg(v) => l2.lock().unwrap().push(format!("M{}", v)),
                    Event::Closed => l2.lock().unwrap().push("CLOSED".into()),
                })
                .expect("insert");
            let mut alive = true;
            for _ in 0..(ndisp + 4) {
                let _ = event_loop.dispatch(Some(Duration::ZERO), &mut ());
                let now_alive = event_loop.handle().update(&token).is_ok();
                if alive && !now_alive {
                    log.lock().unwrap().push("RM".into());
                }
                alive = now_alive;
            }
            // the loop (and with it a still inserted channel and its Ping handle) outlives the scenario
            std::mem::forget(event_loop);
        });
    }
    // one sender per thread: the original and clones of it (dropping a spare one would ping)
    let mut initial: Vec<AnySender> = (1..progs.len()).map(|_| first.clone_it()).collect();
    initial.push(first);
    for (i, prog) in progs.iter().enumerate() {
        let mine = initial.pop().expect("sender");
        let prog = prog.clone();
        let log = log.clone();
        sched.spawn(i + 1, move || {
            let tid = (i + 1) as u64;
            let mut senders: Vec<AnySender> = vec![mine];
            let mut k = 0u64;
            for op in prog.chars() {
                match op {
                    's' => {
                        let v = tid * 100 + k;
                        k += 1;
                        match senders.first() {
                            Some(AnySender::U(s)) => {
                                if s.send(v).is_err() {
                                    log.lock().unwrap().push(format!("DISC{}", tid));
                                }
                            }
                            Some(AnySender::S(s)) => match s.try_send(v) {
                                Ok(()) => {}
                                Err(std::sync::mpsc::TrySendError::Full(_)) => log.lock().unwrap().push(format!("FULL{}", tid)),
                                Err(std::sync::mpsc::TrySendError::Disconnected(_)) => log.lock().unwrap().push(format!("DISC{}", tid)),
                            },
                            None => {}
                        }
                    }
                    'b' => {
                        // SyncSender::send: blocks while the queue is full
                        let v = tid * 100 + k;
                        k += 1;
                        let r = match senders.first() {
                            Some(AnySender::U(s)) => s.send(v).is_ok(),
                            Some(AnySender::S(s)) => s.send(v).is_ok(),
                            None => true,
                        };
                        log.lock().unwrap().push(format!("{}{}", if r { "OK" } else { "DISC" }, tid));
                    }
                    'c' => {
                        if !senders.is_empty() {
                            yield_here(53);
                            let c = senders[0].clone_it();
                            senders.push(c);
                        }
                    }
                    'x' => {
                        if !senders.is_empty() {
                            yield_here(52);
                            let s = senders.pop();
                            drop(s);
                        }
                    }
                    _ => {}
                }
            }
            std::mem::forget(senders);
        });
    }
    for i in 0..n {
        sched.step(i);
    }
    for &i in &schedule {
        if i < n {
            do_step(i, &log, &sched);
        }
    }
    let ok = finalize(&sched, n, &log);
    let out = log.lock().unwrap().join(" ");
    sched.finish();
    if ok {
        out
    } else {
        format!("{} HANG", out)
    }
}

pub fn run() {
    crate::for_each_line(|l| {
        let r = std::panic::catch_unwind(|| run_case(l)).unwrap_or_else(|_| "PANIC".to_string());
        println!("{}", r);
    });
}

/// Known finding F9: sync_channel(0) and the blocking SyncSender::send.
/// The sender is parked between the ping of its try_send and the blocking send while the loop drains.
fn run_f9() -> String {
    let log: Log = Arc::new(Mutex::new(vec![]));
    let (tx, chan) = sync_channel::<u64>(0);
    let mut sched = Sched::new(2);
    {
        let log = log.clone();
        sched.spawn(0, move || {
            let mut event_loop: EventLoop<'static, ()> = EventLoop::try_new().expect("loop");
            let l2 = log.clone();
            let _t = event_loop
                .handle()
                .insert_source(chan, move |ev, _, _| {
                    if let Event::Msg(v) = ev {
                        l2.lock().unwrap().push(format!("M{}", v));
                    }
                })
                .expect("insert");
            for _ in 0..8 {
                let _ = event_loop.dispatch(Some(Duration::ZERO), &mut ());
            }
            std::mem::forget(event_loop);
        });
    }
    {
        let log = log.clone();
        sched.spawn(1, move || {
            let r = tx.send(7);
            log.lock().unwrap().push(format!("SENT{}", r.is_ok() as u8));
            std::mem::forget(tx);
        });
    }
    for i in 0..2 {
        sched.step(i);
    }
    // sender: try_send (Full), its ping; loop: poll, drain, try_recv (Empty); sender: blocking send
    for &i in &[1usize, 1, 0, 0, 0, 1] {
        do_step(i, &log, &sched);
    }
    // the loop keeps dispatching
    let mut guard = 0;
    while !matches!(sched.status(0), Status::Finished) && guard < 100 {
        guard += 1;
        do_step(0, &log, &sched);
        sched.refresh_blocked(1);
    }
    let delivered = log.lock().unwrap().iter().any(|l| l.starts_with('M'));
    let sender_done = matches!(sched.status(1), Status::Finished);
    let out = log.lock().unwrap().join(" ");
    sched.finish();
    if !delivered && !sender_done {
        format!("{} STUCK", out)
    } else {
        format!("{} DELIVERED", out)
    }
}

/// sync_channel(0), the schedule OUTSIDE finding F9: the sender runs first until it is parked inside the blocking mpsc send (its
/// try_send has returned Full and pinged by then); only then does the loop start dispatching. The rendezvous must complete.
fn run_parked_first() -> String {
    let log: Log = Arc::new(Mutex::new(vec![]));
    let (tx, chan) = sync_channel::<u64>(0);
    let mut sched = Sched::new(2);
    {
        let log = log.clone();
        sched.spawn(0, move || {
            let mut event_loop: EventLoop<'static, ()> = EventLoop::try_new().expect("loop");
            let l2 = log.clone();
            let _t = event_loop
                .handle()
                .insert_source(chan, move |ev, _, _| {
                    if let Event::Msg(v) = ev {
                        l2.lock().unwrap().push(format!("M{}", v));
                    }
                })
                .expect("insert");
            for _ in 0..8 {
                let _ = event_loop.dispatch(Some(Duration::ZERO), &mut ());
            }
            std::mem::forget(event_loop);
        });
    }
    {
        let log = log.clone();
        sched.spawn(1, move || {
            let r = tx.send(7);
            log.lock().unwrap().push(format!("SENT{}", r.is_ok() as u8));
            std::mem::forget(tx);
        });
    }
    for i in 0..2 {
        sched.step(i);
    }
    // the sender alone, until it blocks natively (or finishes)
    let mut guard = 0;
    while guard < 20 {
        guard += 1;
        match do_step(1, &log, &sched) {
            StepResult::BlockedNow(_) | StepResult::StillBlocked | StepResult::Finished => break,
            StepResult::Ran(_) => {}
        }
    }
    // now the loop dispatches; the sender is stepped whenever the rendezvous has released it
    guard = 0;
    while !matches!(sched.status(0), Status::Finished) && guard < 200 {
        guard += 1;
        do_step(0, &log, &sched);
        sched.refresh_blocked(1);
        if matches!(sched.status(1), Status::Parked(_)) {
            do_step(1, &log, &sched);
        }
    }
    guard = 0;
    while matches!(sched.status(1), Status::Parked(_)) && guard < 20 {
        guard += 1;
        do_step(1, &log, &sched);
    }
    let delivered = log.lock().unwrap().iter().any(|l| l.starts_with('M'));
    let sender_done = matches!(sched.status(1), Status::Finished);
    let out = log.lock().unwrap().join(" ");
    sched.finish();
    if delivered && sender_done {
        format!("{} DELIVERED", out)
    } else {
        format!("{} STUCK delivered={} sender_done={}", out, delivered as u8, sender_done as u8)
    }
}

/// The only sender dies with its thread (a panic unwinds through its owner): the drop of a sender is a drop, whatever the reason - the loop
/// must be woken, deliver Closed once and remove the source (C04).
fn run_panicking_sender() -> String {
    let (tx, chan) = calloop::channel::channel::<u64>();
    let mut event_loop: EventLoop<'static, ()> = EventLoop::try_new().expect("loop");
    let log: Log = Arc::new(Mutex::new(vec![]));
    let l2 = log.clone();
    let _t = event_loop
        .handle()
        .insert_source(chan, move |ev, _, _| match ev {
            Event::Msg(v) => l2.lock().unwrap().push(format!("M{}", v)),
            Event::Closed => l2.lock().unwrap().push("CLOSED".into()),
        })
        .expect("insert");
    let _ = tx.send(1);
    let _ = tx.send(2);
    let _ = event_loop.dispatch(Some(Duration::ZERO), &mut ());
    let prev = std::panic::take_hook();
    std::panic::set_hook(Box::new(|_| {}));
    let h = std::thread::spawn(move || {
        let _owned = tx;
        panic!("the sender's thread dies");
    });
    let _ = h.join();
    std::panic::set_hook(prev);
    for _ in 0..4 {
        let _ = event_loop.dispatch(Some(Duration::ZERO), &mut ());
    }
    let closed = log.lock().unwrap().iter().filter(|l| *l == "CLOSED").count();
    let out = log.lock().unwrap().join(" ");
    format!("{} closed={}", out, closed)
}

pub fn run0() {
    crate::for_each_line(|l| {
        let r = if l.trim() == "parked" {
            std::panic::catch_unwind(run_parked_first).unwrap_or_else(|_| "PANIC".to_string())
        } else if l.trim() == "panicdrop" {
            std::panic::catch_unwind(run_panicking_sender).unwrap_or_else(|_| "PANIC".to_string())
        } else {
            std::panic::catch_unwind(run_f9).unwrap_or_else(|_| "PANIC".to_string())
        };
        println!("{}", r);
    });
}
