//! Real-time behaviour of dispatch() (C12): no clock offset, wall-clock measurements.
//! Case line:  <timeout_ms|-1 (None, woken after 150 ms)> <timer_ms|-1 none|-2 Duration::MAX|-3 already expired> <idle kind 0..4> [<prewake 0|1|2>]
//!   prewake 1: LoopSignal::wakeup() is called on this thread right before the measured dispatch; 2: it was called from a callback of the
//!   previous dispatch. Either way the wake-up is pending and the measured dispatch must not block.
//! Output: elapsed_us fired(0/1) other_callbacks
use calloop::channel;
use calloop::ping::make_ping;
use calloop::timer::{TimeoutAction, Timer};
use calloop::EventLoop;
use std::cell::Cell;
use std::rc::Rc;
use std::time::{Duration, Instant};

/// A source without any fd whose before_sleep hook takes 300 ms and never produces an event.
struct SlowHook;
impl calloop::EventSource for SlowHook {
    type Event = ();
    type Metadata = ();
    type Ret = ();
    type Error = std::io::Error;
    fn process_events<F>(&mut self, _: calloop::Readiness, _: calloop::Token, _: F) -> Result<calloop::PostAction, Self::Error>
    where
        F: FnMut((), &mut ()),
    {
        Ok(calloop::PostAction::Continue)
    }
    fn register(&mut self, _: &mut calloop::Poll, _: &mut calloop::TokenFactory) -> calloop::Result<()> {
        Ok(())
    }
    fn reregister(&mut self, _: &mut calloop::Poll, _: &mut calloop::TokenFactory) -> calloop::Result<()> {
        Ok(())
    }
    fn unregister(&mut self, _: &mut calloop::Poll) -> calloop::Result<()> {
        Ok(())
    }
    const NEEDS_EXTRA_LIFECYCLE_EVENTS: bool = true;
    fn before_sleep(&mut self) -> calloop::Result<Option<(calloop::Readiness, calloop::Token)>> {
        std::thread::sleep(Duration::from_millis(300));
        Ok(None)
    }
}

fn run_case(line: &str) -> String {
    let ws: Vec<i64> = line.split_whitespace().filter_map(|w| w.parse().ok()).collect();
    if ws.len() < 3 {
        return "BAD".into();
    }
    let (timeout, timer, idle) = (ws[0], ws[1], ws[2]);
    let mut event_loop: EventLoop<'static, ()> = EventLoop::try_new().expect("loop");
    let handle = event_loop.handle();
    let fired = Rc::new(Cell::new(0u32));
    let other = Rc::new(Cell::new(0u32));
    let mut keep: Vec<Box<dyn std::any::Any>> = vec![];
    // idle sources of every kind; 3 and 4: sources whose peers are all gone (processed in a warm-up dispatch)
    {
        let o = other.clone();
        match idle {
            1 => {
                let (p, src) = make_ping().unwrap();
                handle.insert_source(src, move |_, _, _| o.set(o.get() + 1)).unwrap();
                keep.push(Box::new(p));
            }
            2 => {
                let (s, ch) = channel::channel::<u8>();
                handle.insert_source(ch, move |_, _, _| o.set(o.get() + 1)).unwrap();
                keep.push(Box::new(s));
            }
            3 => {
                let (p, src) = make_ping().unwrap();
                handle.insert_source(src, move |_, _, _| o.set(o.get() + 1)).unwrap();
                drop(p);
            }
            4 => {
                let (s, ch) = channel::channel::<u8>();
                handle.insert_source(ch, move |_, _, _| {}).unwrap();
                drop(s);
            }
            // 5: an idle callback is queued; 6: one was queued and cancelled. Neither shortens the wait: idles run after it.
            5 => {
                let _ = handle.insert_idle(|_| {});
            }
            6 => {
                handle.insert_idle(|_| {}).cancel();
            }
            // 7: a lifecycle source whose before_sleep hook takes 300 ms: the time a hook takes counts against the wait, it is not slept again
            7 => {
                handle.insert_source(SlowHook, |_, _, _| {}).unwrap();
            }
            _ => {}
        }
    }
    if idle == 3 || idle == 4 {
        // let the close / Closed event be processed: afterwards nothing must keep the loop awake
        for _ in 0..3 {
            event_loop.dispatch(Some(Duration::ZERO), &mut ()).unwrap();
        }
        other.set(0);
    }
    let prewake = ws.get(3).copied().unwrap_or(0);
    if prewake == 2 {
        let (p, src) = make_ping().unwrap();
        let sig = event_loop.get_signal();
        handle.insert_source(src, move |_, _, _| sig.wakeup()).unwrap();
        p.ping();
        event_loop.dispatch(Some(Duration::ZERO), &mut ()).unwrap();
        keep.push(Box::new(p));
    }
    // the clock starts before the timer is created: its deadline is relative to its creation
    let start = Instant::now();
    if timer != -1 {
        let t = match timer {
            -2 => Timer::from_duration(Duration::MAX),
            // 2^64 ms + 100 ms away: far beyond any wait, but not representable in 64 bits of milliseconds
            -4 => Timer::from_duration(Duration::new(18_446_744_073_709_551, 616_000_000) + Duration::from_millis(100)),
            -3 => Timer::from_deadline(Instant::now() - Duration::from_millis(5)),
            ms => Timer::from_duration(Duration::from_millis(ms as u64)),
        };
        let f = fired.clone();
        handle
            .insert_source(t, move |_, _, _| {
                f.set(f.get() + 1);
                TimeoutAction::Drop
            })
            .unwrap();
    }
    // -1: None; -2: Some(Duration::MAX) - both are ended by the wakeup() of the helper thread
    let to = if timeout == -2 {
        Some(Duration::MAX)
    } else if timeout < 0 {
        None
    } else {
        Some(Duration::from_millis(timeout as u64))
    };
    let waker = if timeout < 0 {
        let sig = event_loop.get_signal();
        Some(std::thread::spawn(move || {
            std::thread::sleep(Duration::from_millis(150));
            sig.wakeup();
        }))
    } else {
        None
    };
    if prewake == 1 {
        event_loop.get_signal().wakeup();
    }
    let r = event_loop.dispatch(to, &mut ());
    let el = start.elapsed();
    if let Some(w) = waker {
        let _ = w.join();
    }
    format!("{} {} {} {}", el.as_micros(), fired.get(), other.get(), r.is_ok() as u8)
}

pub fn run() {
    crate::for_each_line(|l| {
        let r = std::panic::catch_unwind(|| run_case(l)).unwrap_or_else(|_| "PANIC".to_string());
        println!("{}", r);
    });
}

/// Histories of several timers, then ONE measured idle dispatch (C12): the wait must be bounded by live armings only.
/// Case line: <timeout_ms> | ops    ops: i<k>:<ms> insert timer k (deadline ms after start), s<k>:<ms> set_deadline + update,
/// x<k> disable, n<k> enable, r<k> remove.   Output: elapsed_us fired-timers(comma list or -) ok
fn run_case2(line: &str) -> String {
    let parts: Vec<&str> = line.split('|').collect();
    if parts.len() != 2 {
        return "BAD".into();
    }
    let timeout: i64 = parts[0].trim().parse().unwrap_or(0);
    let mut event_loop: EventLoop<'static, ()> = EventLoop::try_new().expect("loop");
    let handle = event_loop.handle();
    let fired: Rc<std::cell::RefCell<Vec<u32>>> = Rc::new(std::cell::RefCell::new(vec![]));
    let mut disps: std::collections::HashMap<u32, (calloop::Dispatcher<'static, Timer, ()>, calloop::RegistrationToken)> = Default::default();
    let start = Instant::now();
    for op in parts[1].split_whitespace() {
        let kind = op.as_bytes()[0];
        let rest = &op[1..];
        let (k, ms): (u32, u64) = match rest.split_once(':') {
            Some((a, b)) => (a.parse().unwrap_or(0), b.parse().unwrap_or(0)),
            None => (rest.parse().unwrap_or(0), 0),
        };
        match kind {
            b'i' => {
                let f = fired.clone();
                let d = calloop::Dispatcher::new(Timer::from_deadline(start + Duration::from_millis(ms)), move |_, _, _: &mut ()| {
                    f.borrow_mut().push(k);
                    TimeoutAction::Drop
                });
                if let Ok(t) = handle.register_dispatcher(d.clone()) {
                    disps.insert(k, (d, t));
                }
            }
            b's' => {
                if let Some((d, t)) = disps.get(&k) {
                    d.as_source_mut().set_deadline(start + Duration::from_millis(ms));
                    let _ = handle.update(t);
                }
            }
            b'x' => {
                if let Some((_, t)) = disps.get(&k) {
                    let _ = handle.disable(t);
                }
            }
            b'n' => {
                if let Some((_, t)) = disps.get(&k) {
                    let _ = handle.enable(t);
                }
            }
            b'r' => {
                if let Some((_, t)) = disps.remove(&k) {
                    handle.remove(t);
                }
            }
            _ => {}
        }
    }
    let setup = start.elapsed();
    let r = event_loop.dispatch(Some(Duration::from_millis(timeout.max(0) as u64)), &mut ());
    let el = start.elapsed();
    let f = fired.borrow();
    let fl = if f.is_empty() { "-".to_string() } else { f.iter().map(|k| k.to_string()).collect::<Vec<_>>().join(",") };
    format!("{} {} {} {}", el.as_micros(), fl, r.is_ok() as u8, setup.as_micros())
}

pub fn run2() {
    crate::for_each_line(|l| {
        let r = std::panic::catch_unwind(|| run_case2(l)).unwrap_or_else(|_| "PANIC".to_string());
        println!("{}", r);
    });
}
