//! Sequential scenarios against the real calloop: interprets the scenario language of DESIGN.md 2.3
//! (same files as ocaml/m_seq.ml) and prints the canonical trace.
use calloop::channel::{self, Channel, Event as ChanEvent, Sender, SyncSender};
use calloop::generic::Generic;
use calloop::ping::{make_ping, Ping, PingSource};
use calloop::timer::{TimeoutAction, Timer};
use calloop::{
    Dispatcher, EventIterator, EventLoop, EventSource, Idle, Interest, LoopHandle, Mode, Poll, PostAction,
    Readiness, RegistrationToken, Token, TokenFactory,
};
use std::cell::{Cell, RefCell};
use std::collections::HashMap;
use std::os::fd::{AsFd, AsRawFd, BorrowedFd, OwnedFd};
use std::panic::{catch_unwind, AssertUnwindSafe};
use std::rc::Rc;
use std::time::{Duration, Instant};

const UNIT: Duration = Duration::from_secs(1000);
const IDLE_BASE: u64 = 1_000_000;

#[derive(Clone, Debug)]
pub enum SrcSpec {
    /// tdl: the composite also has a Timer as its last sub-source (deadline code, -1 = none armed)
    Comp { lc: bool, subs: Vec<(u64, u8, u8)>, tdl: Option<i64> },
    Ping { fd: u64 },
    Timer { dl: i64 },
    Chan { c: u64, #[allow(dead_code)] fd: u64 },
}

#[derive(Clone, Debug)]
pub enum Action {
    Insert(u64, SrcSpec),
    Remove(u64),
    Disable(u64),
    Enable(u64),
    Update(u64),
    SetInt(u64, usize, u8, u8),
    SetDl(u64, i64),
    IntoInner(u64),
    DropDisp(u64),
    FdWrite(u64, u64),
    FdRead(u64),
    Ping(u64),
    CloneP(u64),
    DropP(u64),
    NewPing(u64, u64),
    Send(u64, i64),
    TrySend(u64, i64),
    DropSender(u64),
    CloneSender(u64),
    NewChan(u64, u64, i64),
    Idle(u64),
    CancelIdle(u64),
    StopSignal,
}

#[derive(Clone, Debug)]
pub enum Cmd {
    Act(Action),
    Dispatch(i64),
    Stats,
    Epoll,
}

#[derive(Clone, Debug, Default)]
pub struct Script {
    acts: Vec<Action>,
    ret: u64,
    arg: i64,
}

#[derive(Default, Debug)]
pub struct Scenario {
    pub id: String,
    cmds: Vec<Cmd>,
    scripts: HashMap<u64, Vec<Script>>,
    bscripts: HashMap<u64, Vec<u64>>,
}

fn interest(c: u8) -> Interest {
    Interest {
        readable: c & 1 != 0,
        writable: c & 2 != 0,
    }
}
fn mode(c: u8) -> Mode {
    match c {
        0 => Mode::Level,
        1 => Mode::Edge,
        _ => Mode::OneShot,
    }
}

pub fn parse_action(ws: &[&str]) -> Option<Action> {
    let n = |s: &str| s.parse::<u64>().ok();
    let z = |s: &str| s.parse::<i64>().ok();
    Some(match ws {
        ["insert", h, "comp", lc, _n, rest @ ..] => {
            let mut subs = vec![];
            for ch in rest.chunks(3) {
                if ch.len() == 3 {
                    subs.push((n(ch[0])?, n(ch[1])? as u8, n(ch[2])? as u8));
                }
            }
            Action::Insert(n(h)?, SrcSpec::Comp { lc: *lc == "1", subs, tdl: None })
        }
        ["insert", h, "compt", lc, dl, _n, rest @ ..] => {
            let mut subs = vec![];
            for ch in rest.chunks(3) {
                if ch.len() == 3 {
                    subs.push((n(ch[0])?, n(ch[1])? as u8, n(ch[2])? as u8));
                }
            }
            Action::Insert(n(h)?, SrcSpec::Comp { lc: *lc == "1", subs, tdl: Some(z(dl)?) })
        }
        ["insert", h, "ping", fd] => Action::Insert(n(h)?, SrcSpec::Ping { fd: n(fd)? }),
        ["insert", h, "timer", dl] => Action::Insert(n(h)?, SrcSpec::Timer { dl: z(dl)? }),
        ["insert", h, "chan", c, fd] => Action::Insert(n(h)?, SrcSpec::Chan { c: n(c)?, fd: n(fd)? }),
        ["remove", h] => Action::Remove(n(h)?),
        ["disable", h] => Action::Disable(n(h)?),
        ["enable", h] => Action::Enable(n(h)?),
        ["update", h] => Action::Update(n(h)?),
        ["setint", h, j, it, md] => Action::SetInt(n(h)?, n(j)? as usize, n(it)? as u8, n(md)? as u8),
        ["setdl", h, dl] => Action::SetDl(n(h)?, z(dl)?),
        ["intoinner", h] => Action::IntoInner(n(h)?),
        ["dropdisp", h] => Action::DropDisp(n(h)?),
        ["fdwrite", fd, v] => Action::FdWrite(n(fd)?, n(v)?),
        ["fdread", fd] => Action::FdRead(n(fd)?),
        ["ping", p] => Action::Ping(n(p)?),
        ["clonep", p] => Action::CloneP(n(p)?),
        ["dropp", p] => Action::DropP(n(p)?),
        ["newping", p, fd] => Action::NewPing(n(p)?, n(fd)?),
        ["send", c, v] => Action::Send(n(c)?, z(v)?),
        ["trysend", c, v] => Action::TrySend(n(c)?, z(v)?),
        ["dropsender", c] => Action::DropSender(n(c)?),
        ["clonesender", c] => Action::CloneSender(n(c)?),
        ["newchan", c, fd, b] => Action::NewChan(n(c)?, n(fd)?, z(b)?),
        ["idle", i] => Action::Idle(n(i)?),
        ["cancelidle", i] => Action::CancelIdle(n(i)?),
        ["stopsignal"] => Action::StopSignal,
        _ => return None,
    })
}

pub fn parse_scenarios(text: &str) -> Vec<Scenario> {
    let mut out: Vec<Scenario> = vec![];
    let mut pending: Option<(u64, Script, usize)> = None;
    fn flush(out: &mut Vec<Scenario>, pending: &mut Option<(u64, Script, usize)>) {
        if let Some((h, sc, _)) = pending.take() {
            if let Some(s) = out.last_mut() {
                s.scripts.entry(h).or_default().push(sc);
            }
        }
    }
    for line in text.lines() {
        let ws: Vec<&str> = line.split_whitespace().collect();
        match ws.as_slice() {
            ["===", id, ..] => {
                flush(&mut out, &mut pending);
                out.push(Scenario {
                    id: id.to_string(),
                    ..Default::default()
                });
            }
            ["S", h, ret, arg, n, ..] => {
                flush(&mut out, &mut pending);
                let n: usize = n.parse().unwrap_or(0);
                pending = Some((
                    h.parse().unwrap_or(0),
                    Script {
                        acts: vec![],
                        ret: ret.parse().unwrap_or(0),
                        arg: arg.parse().unwrap_or(0),
                    },
                    n,
                ));
                if n == 0 {
                    flush(&mut out, &mut pending);
                }
            }
            ["A", rest @ ..] => {
                if let (Some(p), Some(a)) = (pending.as_mut(), parse_action(rest)) {
                    p.1.acts.push(a);
                    p.2 -= 1;
                    if p.2 == 0 {
                        flush(&mut out, &mut pending);
                    }
                }
            }
            ["B", h, code, ..] => {
                if let Some(s) = out.last_mut() {
                    s.bscripts
                        .entry(h.parse().unwrap_or(0))
                        .or_default()
                        .push(code.parse().unwrap_or(0));
                }
            }
            ["C", rest @ ..] => {
                if let (Some(s), Some(a)) = (out.last_mut(), parse_action(rest)) {
                    s.cmds.push(Cmd::Act(a));
                }
            }
            ["D", t, ..] => {
                if let Some(s) = out.last_mut() {
                    s.cmds.push(Cmd::Dispatch(t.parse().unwrap_or(0)));
                }
            }
            ["T", ..] => {
                if let Some(s) = out.last_mut() {
                    s.cmds.push(Cmd::Stats);
                }
            }
            ["E", ..] => {
                if let Some(s) = out.last_mut() {
                    s.cmds.push(Cmd::Epoll);
                }
            }
            _ => {}
        }
    }
    flush(&mut out, &mut pending);
    out
}

// ---------------------------------------------------------------- shared fds

#[derive(Debug)]
struct SharedFd(Rc<OwnedFd>);
impl AsFd for SharedFd {
    fn as_fd(&self) -> BorrowedFd<'_> {
        self.0.as_fd()
    }
}

// ---------------------------------------------------------------- the composite test source

struct Comp<const LC: bool> {
    h: u64,
    own: Option<Token>,
    subs: Vec<Generic<SharedFd>>,
    tmr: Option<Timer>,
    w: std::rc::Weak<World>,
}

impl<const LC: bool> EventSource for Comp<LC> {
    // (sub-source index, readiness, deadline for an event of the Timer sub-source)
    type Event = (usize, Readiness, Option<Instant>);
    type Metadata = ();
    // the post action and, for the Timer sub-source, the scripted TimeoutAction (code, deadline)
    type Ret = std::io::Result<(PostAction, u64, i64)>;
    type Error = std::io::Error;

    fn process_events<F>(&mut self, readiness: Readiness, token: Token, mut callback: F) -> Result<PostAction, Self::Error>
    where
        F: FnMut(Self::Event, &mut Self::Metadata) -> Self::Ret,
    {
        if self.own == Some(token) {
            return callback((0, readiness, None), &mut ()).map(|r| r.0);
        }
        let mut out: Option<PostAction> = None;
        for (j, sub) in self.subs.iter_mut().enumerate() {
            let mut fired = false;
            let r = sub.process_events(readiness, token, |rd, _| {
                fired = true;
                callback((j + 1, rd, None), &mut ()).map(|r| r.0)
            })?;
            if fired && out.is_none() {
                out = Some(r);
            }
        }
        // every event is shown to every sub-source, each of which ignores foreign tokens; what the Timer answers is not
        // passed on (the composite stays as it is)
        {
            let nsub = self.subs.len() + 1;
            let w = self.w.upgrade();
            if let Some(t) = self.tmr.as_mut() {
                let _ = t.process_events(readiness, token, |dl, _| match callback((nsub, readiness, Some(dl)), &mut ()) {
                    Ok((_, 0, _)) => TimeoutAction::Drop,
                    Ok((_, 1, arg)) => match &w {
                        Some(w) => TimeoutAction::ToInstant(w.instant(arg)),
                        None => TimeoutAction::Drop,
                    },
                    _ => TimeoutAction::ToDuration(Duration::MAX),
                })?;
            }
        }
        Ok(out.unwrap_or(PostAction::Continue))
    }

    fn register(&mut self, poll: &mut Poll, tf: &mut TokenFactory) -> calloop::Result<()> {
        self.own = Some(tf.token());
        let mut r = Ok(());
        for s in self.subs.iter_mut() {
            r = s.register(poll, tf);
            if r.is_err() {
                break;
            }
        }
        if r.is_ok() {
            if let Some(t) = self.tmr.as_mut() {
                r = t.register(poll, tf);
            }
        }
        self.regop(0, r.is_ok());
        r
    }
    fn reregister(&mut self, poll: &mut Poll, tf: &mut TokenFactory) -> calloop::Result<()> {
        self.own = Some(tf.token());
        let mut r = Ok(());
        for s in self.subs.iter_mut() {
            r = s.reregister(poll, tf);
            if r.is_err() {
                break;
            }
        }
        if r.is_ok() {
            if let Some(t) = self.tmr.as_mut() {
                r = t.reregister(poll, tf);
            }
        }
        self.regop(1, r.is_ok());
        r
    }
    fn unregister(&mut self, poll: &mut Poll) -> calloop::Result<()> {
        self.own = None;
        let mut r = Ok(());
        for s in self.subs.iter_mut() {
            r = s.unregister(poll);
            if r.is_err() {
                break;
            }
        }
        if r.is_ok() {
            if let Some(t) = self.tmr.as_mut() {
                r = t.unregister(poll);
            }
        }
        self.regop(2, r.is_ok());
        r
    }

    const NEEDS_EXTRA_LIFECYCLE_EVENTS: bool = LC;

    fn before_sleep(&mut self) -> calloop::Result<Option<(Readiness, Token)>> {
        let w = match self.w.upgrade() {
            Some(w) => w,
            None => return Ok(None),
        };
        let k = {
            let mut inner = w.inner.borrow_mut();
            let c = inner.bsn.entry(self.h).or_insert(0);
            let k = *c;
            *c += 1;
            k
        };
        let code = w.scen.bscripts.get(&self.h).and_then(|v| v.get(k)).copied().unwrap_or(0);
        w.log(format!("3 {} {}", self.h, code));
        match code {
            0 => Ok(None),
            1 => Ok(self.own.map(|t| {
                (
                    Readiness {
                        readable: true,
                        writable: false,
                        error: false,
                    },
                    t,
                )
            })),
            _ => Err(calloop::Error::OtherError("scripted before_sleep failure".into())),
        }
    }

    fn before_handle_events(&mut self, events: EventIterator<'_>) {
        if let Some(w) = self.w.upgrade() {
            let mut s = format!("4 {}", self.h);
            for (rd, tok) in events {
                let code = (calloop::verif::token_key(&tok) as u128) * 4 + rd_code(rd) as u128;
                s.push_str(&format!(" {}", code));
            }
            w.log(s);
        }
    }
}

impl<const LC: bool> Comp<LC> {
    fn regop(&self, kind: u8, ok: bool) {
        if let Some(w) = self.w.upgrade() {
            w.log(format!("16 {} {} {}", self.h, kind, if ok { 0 } else { 1 }));
        }
    }
}

fn rd_code(r: Readiness) -> u8 {
    (r.readable as u8) + 2 * (r.writable as u8)
}

// ---------------------------------------------------------------- world

enum Disp {
    Comp0(Dispatcher<'static, Comp<false>, ()>),
    Comp1(Dispatcher<'static, Comp<true>, ()>),
    Ping(Dispatcher<'static, PingSource, ()>),
    Timer(Dispatcher<'static, Timer, ()>),
    Chan(Dispatcher<'static, Channel<i64>, ()>),
}

enum Senders {
    Unbounded(Vec<Sender<i64>>),
    Sync(Vec<SyncSender<i64>>),
}

#[derive(Default)]
struct Inner {
    toks: HashMap<u64, RegistrationToken>,
    disps: HashMap<u64, Disp>,
    fds: HashMap<u64, Rc<OwnedFd>>,
    fdnum: HashMap<i32, u64>,
    pings: HashMap<u64, Vec<Ping>>,
    ping_srcs: HashMap<u64, PingSource>,
    senders: HashMap<u64, Senders>,
    chan_rx: HashMap<u64, Channel<i64>>,
    idles: HashMap<u64, Idle<'static>>,
    cbn: HashMap<u64, usize>,
    bsn: HashMap<u64, usize>,
}

struct World {
    handle: LoopHandle<'static, ()>,
    inner: RefCell<Inner>,
    trace: RefCell<Vec<String>>,
    scen: Scenario,
    base: Instant,
    logging: Cell<bool>,
    batch_seen: Cell<bool>,
    signal: RefCell<Option<calloop::LoopSignal>>,
}

struct DropGuard {
    h: u64,
    w: std::rc::Weak<World>,
}
impl Drop for DropGuard {
    fn drop(&mut self) {
        if let Some(w) = self.w.upgrade() {
            w.log(format!("15 {}", self.h));
        }
    }
}

/// the fd number the next fd-creating call will get (single-threaded: lowest free number)
fn next_fd_number() -> i32 {
    let probe = rustix::event::eventfd(0, rustix::event::EventfdFlags::CLOEXEC).expect("eventfd");
    probe.as_raw_fd()
}

impl World {
    fn log(&self, s: String) {
        if self.logging.get() {
            self.trace.borrow_mut().push(s);
        }
    }
    fn res_code<T>(r: &calloop::Result<T>) -> u8 {
        match r {
            Ok(_) => 0,
            Err(calloop::Error::InvalidToken) => 1,
            Err(calloop::Error::IoError(_)) => 2,
            Err(calloop::Error::OtherError(_)) => 3,
        }
    }
    fn fd(&self, id: u64) -> Rc<OwnedFd> {
        let mut inner = self.inner.borrow_mut();
        if let Some(f) = inner.fds.get(&id) {
            return f.clone();
        }
        let f = Rc::new(
            rustix::event::eventfd(0, rustix::event::EventfdFlags::CLOEXEC | rustix::event::EventfdFlags::NONBLOCK)
                .expect("eventfd"),
        );
        inner.fdnum.insert(f.as_raw_fd(), id);
        inner.fds.insert(id, f.clone());
        f
    }
    fn instant(&self, dl: i64) -> Instant {
        self.base + UNIT * ((dl / 2).max(0) as u32)
    }
    fn dl_code(&self, i: Instant) -> i64 {
        let d = i.saturating_duration_since(self.base);
        ((d.as_millis() * 2 + UNIT.as_millis() / 2) / UNIT.as_millis()) as i64
    }
    /// fetch and advance the script entry of handle h
    fn next_script(&self, h: u64) -> Script {
        let k = {
            let mut inner = self.inner.borrow_mut();
            let c = inner.cbn.entry(h).or_insert(0);
            let k = *c;
            *c += 1;
            k
        };
        self.scen.scripts.get(&h).and_then(|v| v.get(k)).cloned().unwrap_or_default()
    }
}

fn run_actions(w: &Rc<World>, acts: &[Action]) {
    for a in acts {
        exec_action(w, a);
    }
}

fn pa(code: u64) -> std::io::Result<PostAction> {
    match code {
        0 => Ok(PostAction::Continue),
        1 => Ok(PostAction::Reregister),
        2 => Ok(PostAction::Disable),
        3 => Ok(PostAction::Remove),
        _ => Err(std::io::Error::new(std::io::ErrorKind::Other, "scripted error")),
    }
}

fn do_insert(w: &Rc<World>, h: u64, spec: &SrcSpec) {
    if w.inner.borrow().disps.contains_key(&h) {
        w.log(format!("1 1 {} 1", h)); // a handle id names one dispatcher object
        return;
    }
    let weak = Rc::downgrade(w);
    let guard = DropGuard { h, w: weak.clone() };
    let res: calloop::Result<RegistrationToken>;
    match spec {
        SrcSpec::Comp { lc, subs, tdl } => {
            let gens: Vec<Generic<SharedFd>> = subs
                .iter()
                .map(|(fd, it, md)| Generic::new(SharedFd(w.fd(*fd)), interest(*it), mode(*md)))
                .collect();
            let wk = weak.clone();
            let mk_timer = |w: &Rc<World>| {
                tdl.map(|dl| if dl < 0 { Timer::from_duration(Duration::MAX) } else { Timer::from_deadline(w.instant(dl)) })
            };
            let cb = move |(sub, rd, dl): (usize, Readiness, Option<Instant>), _: &mut (), _: &mut ()| -> std::io::Result<(PostAction, u64, i64)> {
                let _g = &guard;
                let w = match wk.upgrade() {
                    Some(w) => w,
                    None => return Ok((PostAction::Continue, 0, 0)),
                };
                match dl {
                    Some(dl) => w.log(format!("2 {} {} {}", h, sub, w.dl_code(dl))),
                    None => w.log(format!("2 {} {} {}", h, sub, rd_code(rd))),
                }
                let sc = w.next_script(h);
                run_actions(&w, &sc.acts);
                if dl.is_some() {
                    Ok((PostAction::Continue, sc.ret, sc.arg))
                } else {
                    pa(sc.ret).map(|p| (p, 0, 0))
                }
            };
            if *lc {
                let d = Dispatcher::new(
                    Comp::<true> {
                        h,
                        own: None,
                        subs: gens,
                        tmr: mk_timer(w),
                        w: weak.clone(),
                    },
                    cb,
                );
                w.inner.borrow_mut().disps.insert(h, Disp::Comp1(d.clone()));
                res = w.handle.register_dispatcher(d);
            } else {
                let d = Dispatcher::new(
                    Comp::<false> {
                        h,
                        own: None,
                        subs: gens,
                        tmr: mk_timer(w),
                        w: weak.clone(),
                    },
                    cb,
                );
                w.inner.borrow_mut().disps.insert(h, Disp::Comp0(d.clone()));
                res = w.handle.register_dispatcher(d);
            }
        }
        SrcSpec::Ping { fd } => {
            let src = match w.inner.borrow_mut().ping_srcs.remove(fd) {
                Some(s) => s,
                None => return,
            };
            let wk = weak.clone();
            let d = Dispatcher::new(src, move |(), _: &mut (), _: &mut ()| {
                let _g = &guard;
                if let Some(w) = wk.upgrade() {
                    w.log(format!("2 {} 0 0", h));
                    let sc = w.next_script(h);
                    run_actions(&w, &sc.acts);
                }
            });
            w.inner.borrow_mut().disps.insert(h, Disp::Ping(d.clone()));
            res = w.handle.register_dispatcher(d);
        }
        SrcSpec::Timer { dl } => {
            let timer = if *dl < 0 {
                Timer::from_duration(Duration::MAX)
            } else {
                Timer::from_deadline(w.instant(*dl))
            };
            let wk = weak.clone();
            let d = Dispatcher::new(timer, move |dl: Instant, _: &mut (), _: &mut ()| {
                let _g = &guard;
                let w = match wk.upgrade() {
                    Some(w) => w,
                    None => return TimeoutAction::Drop,
                };
                w.log(format!("2 {} 0 {}", h, w.dl_code(dl)));
                let sc = w.next_script(h);
                run_actions(&w, &sc.acts);
                match sc.ret {
                    0 => TimeoutAction::Drop,
                    1 => TimeoutAction::ToInstant(w.instant(sc.arg)),
                    _ => TimeoutAction::ToDuration(Duration::MAX),
                }
            });
            w.inner.borrow_mut().disps.insert(h, Disp::Timer(d.clone()));
            res = w.handle.register_dispatcher(d);
        }
        SrcSpec::Chan { c, .. } => {
            let src = match w.inner.borrow_mut().chan_rx.remove(c) {
                Some(s) => s,
                None => return,
            };
            let wk = weak.clone();
            let d = Dispatcher::new(src, move |ev: ChanEvent<i64>, _: &mut (), _: &mut ()| {
                let _g = &guard;
                if let Some(w) = wk.upgrade() {
                    match ev {
                        ChanEvent::Msg(v) => w.log(format!("2 {} 0 {}", h, v)),
                        ChanEvent::Closed => w.log(format!("2 {} 1 0", h)),
                    }
                    let sc = w.next_script(h);
                    run_actions(&w, &sc.acts);
                }
            });
            w.inner.borrow_mut().disps.insert(h, Disp::Chan(d.clone()));
            res = w.handle.register_dispatcher(d);
        }
    }
    let code = World::res_code(&res);
    if let Ok(t) = res {
        w.inner.borrow_mut().toks.insert(h, t);
        w.log(format!("1 1 {} {} {}", h, code, calloop::verif::registration_token_key(&t)));
    } else {
        w.log(format!("1 1 {} {}", h, code));
    }
}

fn exec_action(w: &Rc<World>, a: &Action) {
    match a {
        Action::Insert(h, spec) => do_insert(w, *h, spec),
        Action::Remove(h) => {
            let t = w.inner.borrow().toks.get(h).copied();
            if let Some(t) = t {
                w.handle.remove(t);
            }
            w.log(format!("1 2 {} 0", h));
        }
        Action::Disable(h) | Action::Enable(h) | Action::Update(h) => {
            let (code, opc) = match a {
                Action::Disable(_) => (3, 0),
                Action::Enable(_) => (4, 1),
                _ => (5, 2),
            };
            let t = w.inner.borrow().toks.get(h).copied();
            let r = match t {
                None => Err(calloop::Error::InvalidToken),
                Some(t) => match opc {
                    0 => w.handle.disable(&t),
                    1 => w.handle.enable(&t),
                    _ => w.handle.update(&t),
                },
            };
            w.log(format!("1 {} {} {}", code, h, World::res_code(&r)));
        }
        Action::SetInt(h, j, it, md) => {
            // clone the dispatcher out so that no World borrow is held across as_source_mut (which may panic)
            enum D {
                C0(Dispatcher<'static, Comp<false>, ()>),
                C1(Dispatcher<'static, Comp<true>, ()>),
                Other,
                None,
            }
            let d = match w.inner.borrow().disps.get(h) {
                Some(Disp::Comp0(d)) => D::C0(d.clone()),
                Some(Disp::Comp1(d)) => D::C1(d.clone()),
                Some(_) => D::Other,
                None => D::None,
            };
            let code = match d {
                D::C0(d) => {
                    let mut s = d.as_source_mut();
                    if let Some(g) = s.subs.get_mut(*j) {
                        g.interest = interest(*it);
                        g.mode = mode(*md);
                    }
                    0
                }
                D::C1(d) => {
                    let mut s = d.as_source_mut();
                    if let Some(g) = s.subs.get_mut(*j) {
                        g.interest = interest(*it);
                        g.mode = mode(*md);
                    }
                    0
                }
                D::Other => 3,
                D::None => 1,
            };
            w.log(format!("1 6 {} {}", h, code));
        }
        Action::SetDl(h, dl) => {
            let d = match w.inner.borrow().disps.get(h) {
                Some(Disp::Timer(d)) => Some(Ok(d.clone())),
                Some(Disp::Comp0(_)) | Some(Disp::Comp1(_)) => Some(Err(true)),
                Some(_) => Some(Err(false)),
                None => None,
            };
            let comp_code = |has: bool| if has { 0 } else { 3 };
            let code = match d {
                Some(Ok(d)) => {
                    d.as_source_mut().set_deadline(w.instant(*dl));
                    0
                }
                Some(Err(true)) => {
                    // the Timer sub-source of a composite
                    let c0 = match w.inner.borrow().disps.get(h) {
                        Some(Disp::Comp0(d)) => Some(d.clone()),
                        _ => None,
                    };
                    let c1 = match w.inner.borrow().disps.get(h) {
                        Some(Disp::Comp1(d)) => Some(d.clone()),
                        _ => None,
                    };
                    let at = w.instant(*dl);
                    if let Some(d) = c0 {
                        comp_code(d.as_source_mut().tmr.as_mut().map(|t| t.set_deadline(at)).is_some())
                    } else if let Some(d) = c1 {
                        comp_code(d.as_source_mut().tmr.as_mut().map(|t| t.set_deadline(at)).is_some())
                    } else {
                        3
                    }
                }
                Some(Err(false)) => 3,
                None => 1,
            };
            w.log(format!("1 7 {} {}", h, code));
        }
        Action::IntoInner(h) => {
            let d = w.inner.borrow_mut().disps.remove(h);
            let code = match d {
                None => 1,
                Some(d) => {
                    // into_source_inner panics if the loop still holds a clone; the source is dropped right away
                    match d {
                        Disp::Comp0(d) => drop(d.into_source_inner()),
                        Disp::Comp1(d) => drop(d.into_source_inner()),
                        Disp::Ping(d) => drop(d.into_source_inner()),
                        Disp::Timer(d) => drop(d.into_source_inner()),
                        Disp::Chan(d) => drop(d.into_source_inner()),
                    }
                    0
                }
            };
            w.log(format!("1 8 {} {}", h, code));
        }
        Action::DropDisp(h) => {
            let d = w.inner.borrow_mut().disps.remove(h);
            let code = if d.is_some() { 0 } else { 1 };
            drop(d);
            w.log(format!("1 9 {} {}", h, code));
        }
        Action::FdWrite(fd, v) => {
            let f = w.fd(*fd);
            let _ = rustix::io::write(&*f, &v.to_ne_bytes());
        }
        Action::FdRead(fd) => {
            let f = w.fd(*fd);
            let mut buf = [0u8; 8];
            let _ = rustix::io::read(&*f, &mut buf);
        }
        Action::NewPing(p, fd) => {
            let fdn = next_fd_number();
            let (ping, src) = make_ping().expect("make_ping");
            let mut inner = w.inner.borrow_mut();
            inner.fdnum.insert(fdn, *fd);
            inner.pings.insert(*p, vec![ping]);
            inner.ping_srcs.insert(*fd, src);
        }
        Action::Ping(p) => {
            let h = w.inner.borrow().pings.get(p).and_then(|v| v.first().cloned());
            if let Some(h) = h {
                h.ping();
            }
        }
        Action::CloneP(p) => {
            let mut inner = w.inner.borrow_mut();
            if let Some(v) = inner.pings.get_mut(p) {
                if let Some(f) = v.first().cloned() {
                    v.push(f);
                }
            }
        }
        Action::DropP(p) => {
            let d = w.inner.borrow_mut().pings.get_mut(p).and_then(|v| v.pop());
            drop(d);
        }
        Action::NewChan(c, fd, bound) => {
            let fdn = next_fd_number();
            let (senders, rx) = if *bound < 0 {
                let (s, r) = channel::channel::<i64>();
                (Senders::Unbounded(vec![s]), r)
            } else {
                let (s, r) = channel::sync_channel::<i64>(*bound as usize);
                (Senders::Sync(vec![s]), r)
            };
            let mut inner = w.inner.borrow_mut();
            inner.fdnum.insert(fdn, *fd);
            inner.senders.insert(*c, senders);
            inner.chan_rx.insert(*c, rx);
        }
        Action::Send(c, v) | Action::TrySend(c, v) => {
            let opc = if matches!(a, Action::Send(..)) { 10 } else { 11 };
            // no clone of the sender is made (a clone's drop would ping / change the sender count)
            let code = {
                let inner = w.inner.borrow();
                match inner.senders.get(c) {
                    Some(Senders::Unbounded(ss)) => ss.first().map(|s| match s.send(*v) {
                        Ok(()) => 0,
                        Err(_) => 2,
                    }),
                    Some(Senders::Sync(ss)) => ss.first().map(|s| match s.try_send(*v) {
                        Ok(()) => 0,
                        Err(std::sync::mpsc::TrySendError::Full(_)) => 1,
                        Err(std::sync::mpsc::TrySendError::Disconnected(_)) => 2,
                    }),
                    None => None,
                }
            };
            if let Some(code) = code {
                w.log(format!("1 {} {} {}", opc, c, code));
            }
        }
        Action::DropSender(c) => {
            let d = {
                let mut inner = w.inner.borrow_mut();
                match inner.senders.get_mut(c) {
                    Some(Senders::Unbounded(v)) => v.pop().map(|s| Box::new(s) as Box<dyn std::any::Any>),
                    Some(Senders::Sync(v)) => v.pop().map(|s| Box::new(s) as Box<dyn std::any::Any>),
                    None => None,
                }
            };
            drop(d);
        }
        Action::CloneSender(c) => {
            let mut inner = w.inner.borrow_mut();
            match inner.senders.get_mut(c) {
                Some(Senders::Unbounded(v)) => {
                    if let Some(f) = v.first().cloned() {
                        v.push(f);
                    }
                }
                Some(Senders::Sync(v)) => {
                    if let Some(f) = v.first().cloned() {
                        v.push(f);
                    }
                }
                None => {}
            }
        }
        Action::Idle(i) => {
            let wk = Rc::downgrade(w);
            let i = *i;
            let idle = w.handle.insert_idle(move |_| {
                if let Some(w) = wk.upgrade() {
                    w.log(format!("5 {}", i));
                    let sc = w.scen.scripts.get(&(IDLE_BASE + i)).and_then(|v| v.first()).cloned().unwrap_or_default();
                    run_actions(&w, &sc.acts);
                }
            });
            w.inner.borrow_mut().idles.insert(i, idle);
        }
        Action::StopSignal => {
            if let Some(sig) = w.signal.borrow().as_ref() {
                sig.stop();
            }
        }
        Action::CancelIdle(i) => {
            let idle = w.inner.borrow_mut().idles.remove(i);
            if let Some(idle) = idle {
                idle.cancel();
            }
        }
    }
}

fn epoll_dump(w: &World, epfd: i32) {
    let text = std::fs::read_to_string(format!("/proc/self/fdinfo/{}", epfd)).unwrap_or_default();
    let mut codes: Vec<u128> = vec![];
    let inner = w.inner.borrow();
    for line in text.lines() {
        if !line.starts_with("tfd:") {
            continue;
        }
        let ws: Vec<&str> = line.split_whitespace().collect();
        // tfd: N events: HEX data: HEX ...
        let tfd: i32 = ws.get(1).and_then(|s| s.parse().ok()).unwrap_or(-1);
        let events = ws.get(3).and_then(|s| u32::from_str_radix(s, 16).ok()).unwrap_or(0);
        let data = ws.get(5).and_then(|s| u64::from_str_radix(s, 16).ok()).unwrap_or(0);
        if data == u64::MAX {
            continue; // polling's own notifier
        }
        let fdid = inner.fdnum.get(&tfd).copied().unwrap_or(999_999);
        let int = ((events & 0x1 != 0) as u128) + 2 * ((events & 0x4 != 0) as u128);
        let md: u128 = if events & (1 << 30) != 0 {
            2
        } else if events & (1 << 31) != 0 {
            1
        } else {
            0
        };
        codes.push((((fdid as u128) * 4 + int) * 4 + md) * (1u128 << 64) + data as u128);
    }
    codes.sort_unstable();
    let mut s = String::from("9");
    for c in codes {
        s.push_str(&format!(" {}", c));
    }
    drop(inner);
    w.log(s);
}

thread_local! {
    pub static LAST_PANIC: RefCell<String> = const { RefCell::new(String::new()) };
}

fn panic_kind(msg: &str) -> u8 {
    if msg.contains("already borrowed") || msg.contains("already mutably borrowed") || msg.contains("BorrowMutError") || msg.contains("BorrowError") {
        1
    } else if msg.contains("unreachable") {
        2
    } else if msg.contains("still registered") {
        3
    } else if msg.contains("sub-ids") {
        4
    } else {
        5
    }
}

thread_local! {
    /// Some(ms): dispatches really wait up to ms (instead of a zero timeout) and an extra line "20 <elapsed ms>" is logged
    static REAL_TIMEOUT: Cell<Option<u64>> = const { Cell::new(None) };
}

pub fn run_scenario(scen: Scenario) -> Vec<String> {
    let mut event_loop: EventLoop<'static, ()> = EventLoop::try_new().expect("event loop");
    let epfd = event_loop.as_raw_fd();
    let w = Rc::new(World {
        handle: event_loop.handle(),
        inner: RefCell::new(Inner::default()),
        trace: RefCell::new(vec![]),
        scen,
        base: Instant::now(),
        logging: Cell::new(true),
        batch_seen: Cell::new(false),
        signal: RefCell::new(Some(event_loop.get_signal())),
    });
    {
        let wk = Rc::downgrade(&w);
        calloop::verif::set_batch_sink(Some(Box::new(move |evs: &[(usize, bool, bool)]| {
            if let Some(w) = wk.upgrade() {
                let mut order = String::from("0");
                let mut codes: Vec<u128> = vec![];
                for (k, r, wr) in evs {
                    order.push_str(&format!(" {}", k));
                    codes.push((*k as u128) * 4 + (*r as u128) + 2 * (*wr as u128));
                }
                codes.sort_unstable();
                let mut b = String::from("7");
                for c in codes {
                    b.push_str(&format!(" {}", c));
                }
                w.batch_seen.set(true);
                w.log(order);
                w.log(b);
            }
        })));
    }
    let cmds = w.scen.cmds.clone();
    let r = catch_unwind(AssertUnwindSafe(|| {
        for c in &cmds {
            w.log("17".to_string());
            match c {
                Cmd::Act(a) => exec_action(&w, a),
                Cmd::Dispatch(t) => {
                    let off = UNIT * (*t as u32) + UNIT / 2;
                    calloop::verif::set_clock_offset(off);
                    w.batch_seen.set(false);
                    let real = REAL_TIMEOUT.with(|c| c.get());
                    let t0 = Instant::now();
                    let r = event_loop.dispatch(Some(real.map(Duration::from_millis).unwrap_or(Duration::ZERO)), &mut ());
                    if real.is_some() {
                        w.log(format!("20 {}", t0.elapsed().as_millis()));
                    }
                    if !w.batch_seen.get() {
                        w.log("0".to_string()); // no poll happened: keep one ORDER line per dispatch command
                    }
                    w.log(format!("6 {} {}", t, if r.is_ok() { 0 } else { 1 }));
                }
                Cmd::Stats => {
                    let st = w.handle.verif_stats();
                    for (k, occ) in &st.slots {
                        w.log(format!("12 {} {}", k, *occ as u8));
                    }
                    let mut s = String::from("13");
                    for k in &st.lifecycle {
                        s.push_str(&format!(" {}", k));
                    }
                    w.log(s);
                    let mut s = String::from("14");
                    for (c, k) in &st.wheel {
                        s.push_str(&format!(" {}", (*c as u128) * (1u128 << 64) + *k as u128));
                    }
                    w.log(s);
                    w.log(format!("8 {} {} {}", st.pending_action, st.idles, st.wheel_counter));
                }
                Cmd::Epoll => epoll_dump(&w, epfd),
            }
        }
    }));
    if r.is_err() {
        let msg = LAST_PANIC.with(|m| m.borrow().clone());
        w.log(format!("10 {}", panic_kind(&msg)));
    }
    w.logging.set(false);
    calloop::verif::set_batch_sink(None);
    calloop::verif::set_clock_offset(Duration::ZERO);
    let trace = w.trace.borrow().clone();
    // tear down (drops may panic after an unwound scenario: contain them)
    let _ = catch_unwind(AssertUnwindSafe(move || {
        drop(event_loop);
        drop(w);
    }));
    trace
}

/// the same scenarios with dispatches that really wait (C14: a synthetic before_sleep event forces a non-blocking wait)
pub fn run_timed(path: &str, ms: u64) {
    REAL_TIMEOUT.with(|c| c.set(Some(ms)));
    run(path);
}

pub fn run(path: &str) {
    let text = std::fs::read_to_string(path).expect("scenario file");
    for scen in parse_scenarios(&text) {
        println!("=== {}", scen.id);
        for l in run_scenario(scen) {
            println!("{}", l);
        }
    }
}
