//! Async adapter: readable()/writable() waits in both directions, abandoned waits (C17).
//! Case line: ops  pr1 pr0 pw1 pw0 (poll readable()/writable(); 1 = stay suspended on Pending, 0 = drop the future),
//! er0 er1 ew0 ew1 (make the adapted fd un/readable, un/writable), d (dispatch), t (poll the suspended wait again if woken).
//! Output per op: R / P (poll result), e, w1 / w0 (the dispatch did / did not call the task's waker), - (t with nothing to do).
use calloop::EventLoop;
use std::future::Future;
use std::io::{Read, Write};
use std::os::fd::AsRawFd;
use std::os::unix::net::UnixStream;
use std::pin::Pin;
use std::sync::atomic::{AtomicBool, Ordering};
use std::sync::Arc;
use std::task::{Context, Poll, Wake, Waker};
use std::time::Duration;

struct Flag(AtomicBool);
impl Wake for Flag {
    fn wake(self: Arc<Self>) {
        self.0.store(true, Ordering::SeqCst);
    }
}

fn raw_read_all(fd: i32) {
    let mut buf = [0u8; 65536];
    loop {
        let n = unsafe { libc::read(fd, buf.as_mut_ptr() as *mut libc::c_void, buf.len()) };
        if n <= 0 {
            break;
        }
    }
}
fn raw_fill(fd: i32) {
    let buf = [7u8; 65536];
    loop {
        let n = unsafe { libc::write(fd, buf.as_ptr() as *const libc::c_void, buf.len()) };
        if n <= 0 {
            break;
        }
    }
    // top up with single bytes: not writable at all any more
    loop {
        let n = unsafe { libc::write(fd, buf.as_ptr() as *const libc::c_void, 1) };
        if n <= 0 {
            break;
        }
    }
}

type Wait<'a> = Pin<Box<dyn Future<Output = ()> + 'a>>;

fn run_case(line: &str) -> String {
    let mut event_loop: EventLoop<'static, ()> = EventLoop::try_new().expect("loop");
    let handle = event_loop.handle();
    let (a, mut b) = UnixStream::pair().expect("pair");
    b.set_nonblocking(true).expect("nonblocking");
    let afd = a.as_raw_fd();
    let mut adapter = handle.adapt_io(a).expect("adapt");
    let ap: *mut calloop::io::Async<'static, UnixStream> = &mut adapter;
    // every poll gets its OWN waker (the Future contract: the waker of the most recent poll is the one to wake); `flag` is the flag
    // of the most recent poll, so a wake-up that goes to a stale waker does not count
    let mut flag = Arc::new(Flag(AtomicBool::new(false)));
    let mut waker = Waker::from(flag.clone());
    let mut cur: Option<(char, Wait<'_>)> = None;
    let mut out: Vec<String> = vec![];
    for op in line.split_whitespace() {
        match op {
            "pr1" | "pr0" | "pw1" | "pw0" => {
                let dir = op.as_bytes()[1] as char;
                let stay = op.ends_with('1');
                cur = None; // an earlier wait is abandoned: its future is dropped
                // the adapter is only reached through the one live future
                let mut fut: Wait<'_> = if dir == 'r' {
                    Box::pin(unsafe { (*ap).readable() })
                } else {
                    Box::pin(unsafe { (*ap).writable() })
                };
                flag = Arc::new(Flag(AtomicBool::new(false)));
                waker = Waker::from(flag.clone());
                let mut cx = Context::from_waker(&waker);
                match fut.as_mut().poll(&mut cx) {
                    Poll::Ready(()) => out.push("R".into()),
                    Poll::Pending => {
                        out.push("P".into());
                        if stay {
                            cur = Some((dir, fut));
                        }
                    }
                }
            }
            "t" => {
                if flag.0.load(Ordering::SeqCst) && cur.is_some() {
                    flag = Arc::new(Flag(AtomicBool::new(false)));
                    waker = Waker::from(flag.clone());
                    let mut cx = Context::from_waker(&waker);
                    let done = match cur.as_mut().map(|(_, f)| f.as_mut().poll(&mut cx)) {
                        Some(Poll::Ready(())) => true,
                        _ => false,
                    };
                    if done {
                        cur = None;
                        out.push("R".into());
                    } else {
                        out.push("P".into());
                    }
                } else {
                    out.push("-".into());
                }
            }
            "er1" => {
                let _ = b.write(&[1u8]);
                out.push("e".into());
            }
            "er0" => {
                raw_read_all(afd);
                out.push("e".into());
            }
            "ew0" => {
                raw_fill(afd);
                out.push("e".into());
            }
            "ew1" => {
                let mut buf = [0u8; 65536];
                while let Ok(n) = b.read(&mut buf) {
                    if n == 0 {
                        break;
                    }
                }
                out.push("e".into());
            }
            "d" => {
                let before = flag.0.load(Ordering::SeqCst);
                flag.0.store(false, Ordering::SeqCst);
                let _ = event_loop.dispatch(Some(Duration::ZERO), &mut ());
                let now = flag.0.load(Ordering::SeqCst);
                out.push(if now { "w1".into() } else { "w0".into() });
                flag.0.store(before || now, Ordering::SeqCst);
            }
            _ => out.push("?".into()),
        }
    }
    drop(cur);
    drop(adapter);
    out.join(" ")
}

pub fn run() {
    crate::for_each_line(|l| {
        let r = std::panic::catch_unwind(|| run_case(l)).unwrap_or_else(|_| "PANIC".to_string());
        println!("{}", r);
    });
}
