//! A custom EventSource that talks to the poller directly (no Generic underneath) and calls back for EVERY event the loop hands it: it
//! relies on the loop alone for "a removed source is never called again" (C06, C01, C08). Cases:
//!   self_remove   one source, two ready fds; its callback calls handle.remove(own token) on the first event
//!   post_remove   the same, but the first event is answered PostAction::Remove
//!   other_remove  two sources with one ready fd each, both in one batch; whichever runs first removes the other
//! Output: calls=<callback invocations per source, comma separated> later=<the same after two more dispatches>
use calloop::{EventLoop, EventSource, Interest, LoopHandle, Mode, Poll, PostAction, Readiness, RegistrationToken, Token, TokenFactory};
use std::cell::{Cell, RefCell};
use std::os::fd::OwnedFd;
use std::rc::Rc;
use std::time::Duration;

struct Raw {
    fds: Vec<OwnedFd>,
    post_remove: bool,
}

fn ready_eventfd() -> OwnedFd {
    let fd = rustix::event::eventfd(0, rustix::event::EventfdFlags::CLOEXEC | rustix::event::EventfdFlags::NONBLOCK).expect("eventfd");
    let _ = rustix::io::write(&fd, &1u64.to_ne_bytes());
    fd
}

impl EventSource for Raw {
    type Event = ();
    type Metadata = ();
    type Ret = ();
    type Error = std::io::Error;
    fn process_events<F>(&mut self, _: Readiness, _: Token, mut callback: F) -> Result<PostAction, Self::Error>
    where
        F: FnMut((), &mut ()),
    {
        callback((), &mut ());
        Ok(if self.post_remove { PostAction::Remove } else { PostAction::Continue })
    }
    fn register(&mut self, poll: &mut Poll, tf: &mut TokenFactory) -> calloop::Result<()> {
        for fd in &self.fds {
            // safety: the fds are owned by this source and unregistered before it is dropped
            unsafe { poll.register(fd, Interest::READ, Mode::Level, tf.token())? };
        }
        Ok(())
    }
    fn reregister(&mut self, poll: &mut Poll, tf: &mut TokenFactory) -> calloop::Result<()> {
        for fd in &self.fds {
            poll.reregister(fd, Interest::READ, Mode::Level, tf.token())?;
        }
        Ok(())
    }
    fn unregister(&mut self, poll: &mut Poll) -> calloop::Result<()> {
        for fd in &self.fds {
            poll.unregister(fd)?;
        }
        Ok(())
    }
}

type Toks = Rc<RefCell<Vec<Option<RegistrationToken>>>>;

fn insert(handle: &LoopHandle<'static, ()>, nfds: usize, post_remove: bool, me: usize, victim: Option<usize>, toks: &Toks, calls: &Rc<RefCell<Vec<u32>>>) {
    let src = Raw {
        fds: (0..nfds).map(|_| ready_eventfd()).collect(),
        post_remove,
    };
    let (h2, t2, c2) = (handle.clone(), toks.clone(), calls.clone());
    let first = Cell::new(true);
    let tok = handle
        .insert_source(src, move |_, _, _| {
            c2.borrow_mut()[me] += 1;
            if first.replace(false) {
                if let Some(v) = victim {
                    let t = t2.borrow_mut()[v].take();
                    if let Some(t) = t {
                        h2.remove(t);
                    }
                }
            }
        })
        .expect("insert");
    toks.borrow_mut()[me] = Some(tok);
}

fn run_case(line: &str) -> String {
    let mut event_loop: EventLoop<'static, ()> = EventLoop::try_new().expect("loop");
    let handle = event_loop.handle();
    let toks: Toks = Rc::new(RefCell::new(vec![None, None]));
    let calls = Rc::new(RefCell::new(vec![0u32, 0u32]));
    match line.trim() {
        "self_remove" => insert(&handle, 2, false, 0, Some(0), &toks, &calls),
        "post_remove" => insert(&handle, 2, true, 0, None, &toks, &calls),
        "other_remove" => {
            insert(&handle, 1, false, 0, Some(1), &toks, &calls);
            insert(&handle, 1, false, 1, Some(0), &toks, &calls);
        }
        _ => return "BAD".into(),
    }
    let _ = event_loop.dispatch(Some(Duration::ZERO), &mut ());
    let first: Vec<String> = calls.borrow().iter().map(|c| c.to_string()).collect();
    let _ = event_loop.dispatch(Some(Duration::ZERO), &mut ());
    let _ = event_loop.dispatch(Some(Duration::ZERO), &mut ());
    let later: Vec<String> = calls.borrow().iter().map(|c| c.to_string()).collect();
    format!("calls={} later={}", first.join(","), later.join(","))
}

/// An fd closed behind the loop (C15): disable() of its source fails; that failure must not touch any other source - in particular a NEW
/// source over a new fd that happens to get the same number is accepted and served.
/// Output: disable_err same_number insert_ok delivered
struct FdNum(i32);
impl std::os::fd::AsFd for FdNum {
    fn as_fd(&self) -> std::os::fd::BorrowedFd<'_> {
        // safety: only used while the number is open, or to let the poller report EBADF for it
        unsafe { std::os::fd::BorrowedFd::borrow_raw(self.0) }
    }
}

fn run_closed_fd_case(line: &str) -> String {
    use std::os::fd::{AsRawFd, IntoRawFd};
    let then_remove = line.trim() == "closed_fd_remove";
    let mut event_loop: EventLoop<'static, ()> = EventLoop::try_new().expect("loop");
    let handle = event_loop.handle();
    let a = rustix::event::eventfd(0, rustix::event::EventfdFlags::CLOEXEC | rustix::event::EventfdFlags::NONBLOCK).expect("eventfd");
    let n = a.into_raw_fd();
    let tok_a = handle
        .insert_source(calloop::generic::Generic::new(FdNum(n), Interest::READ, Mode::Level), |_, _, _| Ok(PostAction::Continue))
        .expect("insert A");
    unsafe { libc::close(n) };
    let disable_err = handle.disable(&tok_a).is_err();
    if then_remove {
        handle.remove(tok_a);
    }
    let b = ready_eventfd();
    let mut bn = b.as_raw_fd();
    let mut keep = Some(b);
    if bn != n {
        // make sure the new fd carries the old number
        unsafe { libc::dup2(bn, n) };
        keep = None;
        bn = n;
    }
    let same_number = bn == n;
    let hits = Rc::new(Cell::new(0u32));
    let h2 = hits.clone();
    let ins = handle.insert_source(calloop::generic::Generic::new(FdNum(n), Interest::READ, Mode::Level), move |_, _, _| {
        h2.set(h2.get() + 1);
        Ok(PostAction::Continue)
    });
    let insert_ok = ins.is_ok();
    let _ = event_loop.dispatch(Some(Duration::ZERO), &mut ());
    let out = format!(
        "disable_err={} same_number={} insert_ok={} delivered={}",
        disable_err as u8,
        same_number as u8,
        insert_ok as u8,
        (hits.get() > 0) as u8
    );
    // tear down in an order that leaves no registration over a closed number
    if let Ok(t) = ins {
        handle.remove(t);
    }
    drop(event_loop);
    drop(keep);
    out
}

pub fn run_closed_fd() {
    crate::for_each_line(|l| {
        let r = std::panic::catch_unwind(|| run_closed_fd_case(l)).unwrap_or_else(|_| "PANIC".to_string());
        println!("{}", r);
    });
}

pub fn run() {
    crate::for_each_line(|l| {
        let r = std::panic::catch_unwind(|| run_case(l)).unwrap_or_else(|_| "PANIC".to_string());
        println!("{}", r);
    });
}
