//! Correspondence harness: runs the real calloop (built from /repo with --cfg calloop_verif)
//! on the same case files the extracted Coq model is run on, printing canonical result lines.

mod m_async;
mod m_asyncw;
mod m_cchan;
mod m_cexec;
mod m_cping;
mod m_crun;
mod m_genlife;
mod m_seq;
mod m_signals;
mod m_timing;
mod m_token;
mod sched;
mod m_rawsrc;
mod m_transient;

fn main() {
    // panics are data here: keep stderr quiet, report them as result lines
    std::panic::set_hook(Box::new(|info| {
        let msg = info.to_string();
        m_seq::LAST_PANIC.with(|m| *m.borrow_mut() = msg);
    }));
    let args: Vec<String> = std::env::args().collect();
    match args.get(1).map(|s| s.as_str()) {
        Some("token") => m_token::run(),
        Some("cping") => m_cping::run(),
        Some("cpingstress") => m_cping::run_stress(),
        Some("cpingpanic") => m_cping::run_panic(),
        Some("async") => m_async::run(),
        Some("asyncw") => m_asyncw::run(),
        Some("asyncdup") => m_async::run_dup(),
        Some("adaptkey") => m_async::run_adaptkey(),
        Some("asyncclose") => m_async::run_close(),
        Some("genlife") => m_genlife::run(),
        Some("cexec") => m_cexec::run(),
        Some("execmix") => m_cexec::run_mix(),
        Some("cexec13") => m_cexec::run13(),
        Some("cexecdrop") => m_cexec::run_drop(),
        Some("cexecre") => m_cexec::run_resched(),
        Some("streams") => m_cexec::run_streams(),
        Some("streamq") => m_cexec::run_streamq_cases(),
        Some("crun") => m_crun::run(),
        Some("crunw") => m_crun::run_wake(),
        Some("crunstop") => m_crun::run_stop(),
        Some("cchan") => m_cchan::run(),
        Some("cchan0") => m_cchan::run0(),
        Some("timing") => m_timing::run(),
        Some("timing2") => m_timing::run2(),
        Some("signals") => m_signals::run(),
        Some("rawsrc") => m_rawsrc::run(),
        Some("closedfd") => m_rawsrc::run_closed_fd(),
        Some("transient") => m_transient::run(),
        Some("transfail") => m_transient::run_fail(),
        Some("seq") => m_seq::run(args.get(2).expect("scenario file")),
        Some("seqtimed") => m_seq::run_timed(args.get(2).expect("scenario file"), args.get(3).and_then(|s| s.parse().ok()).unwrap_or(300)),
        _ => {
            eprintln!("usage: harness <token|...>");
            std::process::exit(2);
        }
    }
}

pub fn for_each_line(mut f: impl FnMut(&str)) {
    use std::io::BufRead;
    let stdin = std::io::stdin();
    for line in stdin.lock().lines() {
        let line = line.expect("stdin");
        f(&line);
    }
}
