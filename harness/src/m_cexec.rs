//! Executor source under the baton scheduler (C10).
//! Case line:  scripts (strings over p pending, r ready, w wakes itself then pending; comma separated) | loop program (s<j> = schedule task j, d = dispatch) | wake programs (task digits; ';' between threads) | schedule
//! Output: executed steps `tid:yieldid`, POLL<j>, DONE<j>, WRONGTHREAD.
use crate::m_cchan::{do_step, finalize};
use crate::sched::{yield_here, Sched};
use calloop::futures::executor;
use calloop::EventLoop;
use std::future::Future;
use std::pin::Pin;
use std::sync::{Arc, Mutex};
use std::task::{Context, Poll, Waker};
use std::time::Duration;

type Log = Arc<Mutex<Vec<String>>>;
type Slots = Arc<Vec<Mutex<Option<Waker>>>>;

struct ScriptFut {
    j: usize,
    outcomes: Vec<u8>,
    idx: usize,
    slots: Slots,
    log: Log,
    home: std::thread::ThreadId,
}
impl Future for ScriptFut {
    type Output = usize;
    fn poll(mut self: Pin<&mut Self>, cx: &mut Context<'_>) -> Poll<usize> {
        if std::thread::current().id() != self.home {
            self.log.lock().unwrap().push("WRONGTHREAD".into());
        }
        *self.slots[self.j].lock().unwrap() = Some(cx.waker().clone());
        self.log.lock().unwrap().push(format!("POLL{}", self.j));
        let r = self.outcomes.get(self.idx).copied().unwrap_or(0);
        self.idx += 1;
        match r {
            1 => Poll::Ready(self.j),
            2 => {
                // the task wakes itself while it is being polled
                cx.waker().wake_by_ref();
                Poll::Pending
            }
            _ => Poll::Pending,
        }
    }
}
impl Drop for ScriptFut {
    fn drop(&mut self) {
        if std::thread::current().id() != self.home {
            self.log.lock().unwrap().push("WRONGTHREAD".into());
        }
    }
}

fn run_case(line: &str) -> String {
    let parts: Vec<&str> = line.split('|').map(|s| s.trim()).collect();
    if parts.len() != 4 {
        return "BAD".into();
    }
    let scripts: Vec<Vec<u8>> = parts[0]
        .split(',')
        .map(|s| {
            s.trim()
                .chars()
                .map(|c| match c {
                    'r' => 1,
                    'w' => 2,
                    _ => 0,
                })
                .collect()
        })
        .collect();
    let lops: Vec<String> = parts[1].split_whitespace().map(|s| s.to_string()).collect();
    let wprogs: Vec<Vec<usize>> = if parts[2].is_empty() {
        vec![]
    } else {
        parts[2].split(';').map(|p| p.trim().chars().filter_map(|c| c.to_digit(10).map(|d| d as usize)).collect()).collect()
    };
    let schedule: Vec<usize> = parts[3].chars().filter_map(|c| c.to_digit(10).map(|d| d as usize)).collect();
    let n = wprogs.len() + 1;
    let log: Log = Arc::new(Mutex::new(vec![]));
    let slots: Slots = Arc::new((0..scripts.len()).map(|_| Mutex::new(None)).collect());
    let mut sched = Sched::new(n);
    {
        let log = log.clone();
        let slots = slots.clone();
        sched.spawn(0, move || {
            let mut event_loop: EventLoop<'static, ()> = EventLoop::try_new().expect("loop");
            let (exec, scheduler) = executor::<usize>().expect("executor");
            let l2 = log.clone();
            event_loop
                .handle()
                .insert_source(exec, move |j, _, _| l2.lock().unwrap().push(format!("DONE{}", j)))
                .expect("insert");
            let home = std::thread::current().id();
            for op in lops.iter().map(|s| s.as_str()).chain(["d", "d", "d", "d"]) {
                if let Some(js) = op.strip_prefix('s') {
                    let j: usize = js.parse().unwrap_or(0);
                    if let Some(sc) = scripts.get(j) {
                        let _ = scheduler.schedule(ScriptFut {
                            j,
                            outcomes: sc.clone(),
                            idx: 0,
                            slots: slots.clone(),
                            log: log.clone(),
                            home,
                        });
                    }
                } else {
                    let _ = event_loop.dispatch(Some(Duration::ZERO), &mut ());
                }
            }
            std::mem::forget(scheduler);
            std::mem::forget(event_loop);
        });
    }
    for (i, prog) in wprogs.iter().enumerate() {
        let prog = prog.clone();
        let slots = slots.clone();
        sched.spawn(i + 1, move || {
            for j in prog {
                yield_here(60);
                let w = slots.get(j).and_then(|s| s.lock().unwrap().clone());
                if let Some(w) = w {
                    w.wake_by_ref();
                }
            }
        });
    }
    for i in 0..n {
        sched.step(i);
    }
    for &i in &schedule {
        if i < n {
            do_step(i, &log, &sched);
        }
    }
    let ok = finalize(&sched, n, &log);
    let out = log.lock().unwrap().join(" ");
    sched.finish();
    if ok {
        out
    } else {
        format!("{} HANG", out)
    }
}

pub fn run() {
    crate::for_each_line(|l| {
        let r = std::panic::catch_unwind(|| run_case(l)).unwrap_or_else(|_| "PANIC".to_string());
        println!("{}", r);
    });
}

// ---- StreamSource (sequential): items in order exactly once, then a single None, then the source removes itself
struct ScriptStream {
    script: Vec<char>,
    idx: usize,
}
impl futures_core::Stream for ScriptStream {
    type Item = u32;
    fn poll_next(mut self: Pin<&mut Self>, cx: &mut Context<'_>) -> Poll<Option<u32>> {
        let c = self.script.get(self.idx).copied();
        self.idx += 1;
        match c {
            Some('p') => {
                cx.waker().wake_by_ref();
                Poll::Pending
            }
            Some(d) if d.is_ascii_digit() => Poll::Ready(Some(d.to_digit(10).unwrap())),
            _ => Poll::Ready(None),
        }
    }
}

fn run_stream(script: &str) -> String {
    use calloop::stream::StreamSource;
    let mut event_loop: EventLoop<'static, Vec<String>> = EventLoop::try_new().expect("loop");
    let src = StreamSource::new(ScriptStream {
        script: script.chars().collect(),
        idx: 0,
    })
    .expect("stream");
    let token = event_loop
        .handle()
        .insert_source(src, |item, _, out: &mut Vec<String>| match item {
            Some(v) => out.push(format!("I{}", v)),
            None => out.push("END".into()),
        })
        .expect("insert");
    let mut out = vec![];
    for _ in 0..(script.len() + 4) {
        let _ = event_loop.dispatch(Some(Duration::ZERO), &mut out);
    }
    out.push(if event_loop.handle().update(&token).is_ok() { "STILL".into() } else { "REMOVED".into() });
    out.join(" ")
}

// ---- StreamSource with an external producer (same case lines as ocaml/m_streamq.ml): the stream is a queue the test pushes into;
// polled while empty and open it stores the waker; a push / close wakes a stored waker
struct QShared {
    q: std::collections::VecDeque<u64>,
    closed: bool,
    waker: Option<std::task::Waker>,
}
struct QStream(std::rc::Rc<std::cell::RefCell<QShared>>);
impl futures_core::Stream for QStream {
    type Item = u64;
    fn poll_next(self: Pin<&mut Self>, cx: &mut Context<'_>) -> Poll<Option<u64>> {
        let mut sh = self.0.borrow_mut();
        if let Some(v) = sh.q.pop_front() {
            Poll::Ready(Some(v))
        } else if sh.closed {
            Poll::Ready(None)
        } else {
            sh.waker = Some(cx.waker().clone());
            Poll::Pending
        }
    }
}

fn run_streamq(line: &str) -> String {
    use calloop::stream::StreamSource;
    let shared = std::rc::Rc::new(std::cell::RefCell::new(QShared { q: Default::default(), closed: false, waker: None }));
    let mut event_loop: EventLoop<'static, Vec<String>> = EventLoop::try_new().expect("loop");
    let src = StreamSource::new(QStream(shared.clone())).expect("stream");
    let token = event_loop
        .handle()
        .insert_source(src, |item, _, out: &mut Vec<String>| match item {
            Some(v) => out.push(format!("I{}", v)),
            None => out.push("END".into()),
        })
        .expect("insert");
    let mut out = vec![];
    for op in line.split_whitespace() {
        match op.as_bytes()[0] {
            b'u' => {
                let v: u64 = op[1..].parse().unwrap_or(0);
                let w = {
                    let mut sh = shared.borrow_mut();
                    if sh.closed {
                        None
                    } else {
                        sh.q.push_back(v);
                        sh.waker.take()
                    }
                };
                if let Some(w) = w {
                    w.wake();
                }
            }
            b'c' => {
                let w = {
                    let mut sh = shared.borrow_mut();
                    if sh.closed {
                        None
                    } else {
                        sh.closed = true;
                        sh.waker.take()
                    }
                };
                if let Some(w) = w {
                    w.wake();
                }
            }
            b'd' => {
                let _ = event_loop.dispatch(Some(Duration::ZERO), &mut out);
            }
            _ => {}
        }
    }
    out.push(if event_loop.handle().update(&token).is_ok() { "STILL".into() } else { "REMOVED".into() });
    out.join(" ")
}

pub fn run_streamq_cases() {
    crate::for_each_line(|l| {
        let s = l.trim().to_string();
        let r = std::panic::catch_unwind(move || run_streamq(&s)).unwrap_or_else(|_| "PANIC".to_string());
        println!("{}", r);
    });
}

pub fn run_streams() {
    crate::for_each_line(|l| {
        let s = l.trim().to_string();
        let r = std::panic::catch_unwind(move || run_stream(&s)).unwrap_or_else(|_| "PANIC".to_string());
        println!("{}", r);
    });
}

/// Known finding F13: Executor::drop racing a wake that is parked between its state change and its enqueue.
struct DropFut {
    slots: Slots,
    log: Log,
}
impl Future for DropFut {
    type Output = usize;
    fn poll(self: Pin<&mut Self>, cx: &mut Context<'_>) -> Poll<usize> {
        *self.slots[0].lock().unwrap() = Some(cx.waker().clone());
        Poll::Pending
    }
}
impl Drop for DropFut {
    fn drop(&mut self) {
        self.log.lock().unwrap().push("DROPPED".into());
    }
}

fn run_f13(race: bool) -> String {
    let log: Log = Arc::new(Mutex::new(vec![]));
    let slots: Slots = Arc::new(vec![Mutex::new(None)]);
    let mut sched = Sched::new(2);
    {
        let log = log.clone();
        let slots = slots.clone();
        sched.spawn(0, move || {
            let mut event_loop: EventLoop<'static, ()> = EventLoop::try_new().expect("loop");
            let (exec, scheduler) = executor::<usize>().expect("executor");
            let token = event_loop.handle().insert_source(exec, |_, _, _| {}).expect("insert");
            let _ = scheduler.schedule(DropFut { slots, log: log.clone() });
            let _ = event_loop.dispatch(Some(Duration::ZERO), &mut ());
            yield_here(70);
            event_loop.handle().remove(token); // drops the Executor
            drop(scheduler);
            log.lock().unwrap().push("EXECUTOR-GONE".into());
            yield_here(71);
            std::mem::forget(event_loop);
        });
    }
    {
        let slots = slots.clone();
        sched.spawn(1, move || {
            yield_here(60);
            let w = slots[0].lock().unwrap().clone();
            if let Some(w) = w {
                w.wake_by_ref();
            }
        });
    }
    for i in 0..2 {
        sched.step(i);
    }
    // loop: schedule (3 steps), dispatch (poll, drain, store, try_recv+poll, try_recv) -> parked at 70
    for _ in 0..8 {
        do_step(0, &log, &sched);
    }
    if race {
        do_step(1, &log, &sched); // the wake: task marked scheduled, parked before the enqueue
    }
    // the executor is dropped (its steps run until yield 71)
    let mut guard = 0;
    while !matches!(sched.status(0), crate::sched::Status::Parked(71) | crate::sched::Status::Finished) && guard < 50 {
        guard += 1;
        do_step(0, &log, &sched);
    }
    let _ = finalize(&sched, 2, &log);
    let dropped = log.lock().unwrap().iter().any(|l| l == "DROPPED");
    let out = log.lock().unwrap().join(" ");
    sched.finish();
    format!("{} {}", out, if dropped { "FUTURE-DROPPED" } else { "FUTURE-LEAKED" })
}

pub fn run13() {
    crate::for_each_line(|l| {
        let race = l.trim() == "race";
        let r = std::panic::catch_unwind(move || run_f13(race)).unwrap_or_else(|_| "PANIC".to_string());
        println!("{}", r);
    });
}

/// Executor::drop, sequential (C10): `<n tasks> <polls before ready, 0 = never ready> <dispatches before the drop>`.
/// After the executor source is removed from the loop (and dropped) every future it still owned must have been dropped, and
/// every completed task must have delivered its output once. Output: scheduled dropped delivered polls_ok
struct CountFut {
    left: u32,
    never: bool,
    dropped: Arc<std::sync::atomic::AtomicUsize>,
}
impl Future for CountFut {
    type Output = usize;
    fn poll(mut self: Pin<&mut Self>, cx: &mut Context<'_>) -> Poll<usize> {
        if !self.never && self.left == 0 {
            return Poll::Ready(1);
        }
        if self.left > 0 {
            self.left -= 1;
        }
        // stay runnable: wake itself
        cx.waker().wake_by_ref();
        Poll::Pending
    }
}
impl Drop for CountFut {
    fn drop(&mut self) {
        self.dropped.fetch_add(1, std::sync::atomic::Ordering::SeqCst);
    }
}

fn run_drop_case(line: &str) -> String {
    let ws: Vec<u32> = line.split_whitespace().filter_map(|w| w.parse().ok()).collect();
    if ws.len() != 3 {
        return "BAD".into();
    }
    let (n, polls, disp) = (ws[0] as usize, ws[1], ws[2]);
    let dropped = Arc::new(std::sync::atomic::AtomicUsize::new(0));
    let delivered = Arc::new(std::sync::atomic::AtomicUsize::new(0));
    let mut event_loop: EventLoop<'static, ()> = EventLoop::try_new().expect("loop");
    let (exec, scheduler) = executor::<usize>().expect("executor");
    let d2 = delivered.clone();
    let token = event_loop
        .handle()
        .insert_source(exec, move |_, _, _| {
            d2.fetch_add(1, std::sync::atomic::Ordering::SeqCst);
        })
        .expect("insert");
    for _ in 0..n {
        let _ = scheduler.schedule(CountFut {
            left: polls,
            never: polls == 0,
            dropped: dropped.clone(),
        });
    }
    for _ in 0..disp {
        let _ = event_loop.dispatch(Some(Duration::ZERO), &mut ());
    }
    event_loop.handle().remove(token);
    let after = scheduler.schedule(CountFut {
        left: 0,
        never: false,
        dropped: Arc::new(std::sync::atomic::AtomicUsize::new(0)),
    });
    let refused = after.is_err();
    drop(scheduler);
    let _ = event_loop.dispatch(Some(Duration::ZERO), &mut ());
    format!(
        "{} {} {} {}",
        n,
        dropped.load(std::sync::atomic::Ordering::SeqCst),
        delivered.load(std::sync::atomic::Ordering::SeqCst),
        refused as u8
    )
}

/// The executor and another source ready in ONE batch (C10): the other source's callback wakes task X while the wake of task Y is what made
/// the executor ready. Both must be polled, and every LATER wake / schedule must still reach the executor. Single-threaded.
/// Case: `other_first` | `exec_first` (which of the two became ready first). Output: x=<polls> y=<polls> z=<polls>; wanted x=3 y=2 z=1
mod mix {
    use std::cell::{Cell, RefCell};
    use std::future::Future;
    use std::pin::Pin;
    use std::rc::Rc;
    use std::task::{Context, Poll, Waker};
    pub struct Pending {
        pub polls: Rc<Cell<u32>>,
        pub waker: Rc<RefCell<Option<Waker>>>,
    }
    impl Future for Pending {
        type Output = ();
        fn poll(self: Pin<&mut Self>, cx: &mut Context<'_>) -> Poll<()> {
            self.polls.set(self.polls.get() + 1);
            *self.waker.borrow_mut() = Some(cx.waker().clone());
            Poll::Pending
        }
    }
    pub fn task() -> (Rc<Cell<u32>>, Rc<RefCell<Option<Waker>>>, Pending) {
        let polls = Rc::new(Cell::new(0));
        let waker = Rc::new(RefCell::new(None));
        (polls.clone(), waker.clone(), Pending { polls, waker })
    }
    pub fn wake(w: &Rc<RefCell<Option<Waker>>>) {
        if let Some(w) = w.borrow().as_ref() {
            w.wake_by_ref();
        }
    }
}

fn run_mix_case(line: &str) -> String {
    let other_first = line.trim() == "other_first";
    let mut event_loop: EventLoop<'static, ()> = EventLoop::try_new().expect("loop");
    let handle = event_loop.handle();
    let (exec, sched) = executor::<()>().expect("executor");
    let (xp, xw, xf) = mix::task();
    let (yp, yw, yf) = mix::task();
    let (ping, ping_source) = calloop::ping::make_ping().expect("ping");
    let xw2 = xw.clone();
    handle.insert_source(ping_source, move |(), &mut (), _| mix::wake(&xw2)).expect("insert ping");
    handle.insert_source(exec, |(), &mut (), _| ()).expect("insert executor");
    sched.schedule(xf).expect("schedule");
    sched.schedule(yf).expect("schedule");
    for _ in 0..2 {
        let _ = event_loop.dispatch(Some(Duration::ZERO), &mut ());
    }
    if other_first {
        ping.ping();
        mix::wake(&yw);
    } else {
        mix::wake(&yw);
        ping.ping();
    }
    for _ in 0..2 {
        let _ = event_loop.dispatch(Some(Duration::ZERO), &mut ());
    }
    // the executor is idle again: a later wake, and a freshly scheduled future, must still get through
    mix::wake(&xw);
    for _ in 0..3 {
        let _ = event_loop.dispatch(Some(Duration::ZERO), &mut ());
    }
    let (zp, _zw, zf) = mix::task();
    sched.schedule(zf).expect("schedule");
    for _ in 0..3 {
        let _ = event_loop.dispatch(Some(Duration::ZERO), &mut ());
    }
    format!("x={} y={} z={}", xp.get(), yp.get(), zp.get())
}

pub fn run_mix() {
    crate::for_each_line(|l| {
        let r = std::panic::catch_unwind(|| run_mix_case(l)).unwrap_or_else(|_| "PANIC".to_string());
        println!("{}", r);
    });
}

pub fn run_drop() {
    crate::for_each_line(|l| {
        let r = std::panic::catch_unwind(|| run_drop_case(l)).unwrap_or_else(|_| "PANIC".to_string());
        println!("{}", r);
    });
}

/// Scheduling from inside the executor's own callbacks and futures (C10, C08): `<n> <depth>`.
/// n ready tasks are scheduled; every completion callback schedules one more ready task until `depth` generations have run; the
/// first task of every generation also schedules a task from inside its future. Output: delivered expected panicked
fn run_resched_case(line: &str) -> String {
    let ws: Vec<usize> = line.split_whitespace().filter_map(|w| w.parse().ok()).collect();
    if ws.len() != 2 {
        return "BAD".into();
    }
    let (n, depth) = (ws[0], ws[1]);
    let delivered = std::rc::Rc::new(std::cell::Cell::new(0usize));
    let mut event_loop: EventLoop<'static, ()> = EventLoop::try_new().expect("loop");
    let (exec, scheduler) = executor::<usize>().expect("executor");
    let sched2 = scheduler.clone();
    let d2 = delivered.clone();
    let _token = event_loop
        .handle()
        .insert_source(exec, move |gen, _, _| {
            d2.set(d2.get() + 1);
            if gen > 0 {
                // schedule from inside the executor's own completion callback
                let _ = sched2.schedule(async move { gen - 1 });
            }
        })
        .expect("insert");
    for i in 0..n {
        let s3 = scheduler.clone();
        let first = i == 0;
        let _ = scheduler.schedule(async move {
            if first {
                // schedule from inside a running future
                let _ = s3.schedule(async move { 0usize });
            }
            depth
        });
    }
    let r = std::panic::catch_unwind(std::panic::AssertUnwindSafe(|| {
        for _ in 0..(depth + 4) {
            let _ = event_loop.dispatch(Some(Duration::ZERO), &mut ());
        }
    }));
    let expected = n * (depth + 1) + if n > 0 { 1 } else { 0 };
    let out = format!("{} {} {}", delivered.get(), expected, r.is_err() as u8);
    std::mem::forget(event_loop);
    out
}

pub fn run_resched() {
    crate::for_each_line(|l| {
        let r = std::panic::catch_unwind(|| run_resched_case(l)).unwrap_or_else(|_| "PANIC".to_string());
        println!("{}", r);
    });
}
