//! LoopSignal / run(None) / block_on under the baton scheduler (C11).
//! Case line:  run|blockon <futscript over p(ending) r(eady) w(akes itself, then pending)> | prog1;prog2 | schedule     progs over s (stop) w (wakeup) k (wake the future)
//! Output: executed steps `tid:yieldid`, POLL, ITER, WOKE, RET0/RET1.
use crate::m_cchan::do_step;
use crate::sched::{Sched, Status};
use calloop::EventLoop;
use std::future::Future;
use std::pin::Pin;
use std::sync::{Arc, Mutex};
use std::task::{Context, Poll, Waker};

type Log = Arc<Mutex<Vec<String>>>;

struct ScriptFut {
    outcomes: Vec<u8>,
    idx: usize,
    slot: Arc<Mutex<Option<Waker>>>,
    log: Log,
}
impl Future for ScriptFut {
    type Output = u32;
    fn poll(mut self: Pin<&mut Self>, cx: &mut Context<'_>) -> Poll<u32> {
        *self.slot.lock().unwrap() = Some(cx.waker().clone());
        self.log.lock().unwrap().push("POLL".into());
        let r = self.outcomes.get(self.idx).copied().unwrap_or(0);
        self.idx += 1;
        match r {
            1 => Poll::Ready(42),
            2 => {
                // the future wakes itself from inside its poll (what a yielding future does)
                cx.waker().wake_by_ref();
                Poll::Pending
            }
            _ => Poll::Pending,
        }
    }
}

fn run_case(line: &str) -> String {
    let parts: Vec<&str> = line.split('|').map(|s| s.trim()).collect();
    if parts.len() != 3 {
        return "BAD".into();
    }
    let head: Vec<&str> = parts[0].split_whitespace().collect();
    let blockon = head.first() == Some(&"blockon");
    let script: Vec<u8> = head
        .get(1)
        .unwrap_or(&"")
        .chars()
        .map(|c| match c {
            'r' => 1,
            'w' => 2,
            _ => 0,
        })
        .collect();
    let progs: Vec<String> = parts[1].split(';').map(|s| s.trim().to_string()).collect();
    let schedule: Vec<usize> = parts[2].chars().filter_map(|c| c.to_digit(10).map(|d| d as usize)).collect();
    let n = progs.len() + 1;
    let log: Log = Arc::new(Mutex::new(vec![]));
    let slot: Arc<Mutex<Option<Waker>>> = Arc::new(Mutex::new(None));
    let signal_cell: Arc<Mutex<Option<calloop::LoopSignal>>> = Arc::new(Mutex::new(None));
    let mut sched = Sched::new(n);
    {
        let log = log.clone();
        let slot = slot.clone();
        let cell = signal_cell.clone();
        sched.spawn(0, move || {
            let mut event_loop: EventLoop<'static, ()> = EventLoop::try_new().expect("loop");
            *cell.lock().unwrap() = Some(event_loop.get_signal());
            let l2 = log.clone();
            if blockon {
                let fut = ScriptFut {
                    outcomes: script,
                    idx: 0,
                    slot,
                    log: log.clone(),
                };
                let r = event_loop.block_on(fut, &mut (), move |_| l2.lock().unwrap().push("ITER".into()));
                log.lock().unwrap().push(format!("RET{}", matches!(r, Ok(Some(_))) as u8));
            } else {
                let r = event_loop.run(None, &mut (), move |_| l2.lock().unwrap().push("ITER".into()));
                let _ = r;
                log.lock().unwrap().push("RET0".into());
            }
            std::mem::forget(event_loop);
        });
    }
    // the loop thread's start step creates the loop and publishes the signal
    sched.step(0);
    let signal = signal_cell.lock().unwrap().clone().expect("signal");
    for (i, prog) in progs.iter().enumerate() {
        let prog = prog.clone();
        let signal = signal.clone();
        let slot = slot.clone();
        sched.spawn(i + 1, move || {
            for op in prog.chars() {
                match op {
                    's' => signal.stop(),
                    'w' => signal.wakeup(),
                    'k' => {
                        crate::sched::yield_here(60);
                        let w = slot.lock().unwrap().clone();
                        if let Some(w) = w {
                            w.wake_by_ref();
                        }
                    }
                    _ => {}
                }
            }
        });
    }
    for i in 1..n {
        sched.step(i);
    }
    // whether the scheduler has seen the loop thread block in its wait and not yet seen it come back
    let loop_blocked = std::cell::Cell::new(false);
    let settle = |log: &Log, sched: &Sched| {
        if loop_blocked.get() && sched.refresh_blocked(0) {
            loop_blocked.set(false);
            log.lock().unwrap().push("WOKE".into());
        }
    };
    let step = |i: usize, log: &Log, sched: &Sched| {
        let r = do_step(i, log, sched);
        if i == 0 {
            if matches!(r, crate::sched::StepResult::BlockedNow(_)) {
                loop_blocked.set(true);
            }
        } else {
            settle(log, sched);
        }
    };
    for &i in &schedule {
        if i < n {
            step(i, &log, &sched);
        }
    }
    // finalisation: signalling threads to their end, the loop thread as far as it gets
    let mut guard = 0;
    loop {
        guard += 1;
        let mut progressed = false;
        for i in (1..n).chain(std::iter::once(0)) {
            if !matches!(sched.status(i), Status::Finished | Status::Blocked) {
                step(i, &log, &sched);
                progressed = true;
                break;
            }
        }
        if !progressed || guard > 5000 {
            break;
        }
    }
    let blocked = sched.status(0) == Status::Blocked;
    let mut out = log.lock().unwrap().join(" ");
    if blocked {
        out.push_str(" WAITING");
    }
    sched.finish();
    out
}

pub fn run() {
    crate::for_each_line(|l| {
        let r = std::panic::catch_unwind(|| run_case(l)).unwrap_or_else(|_| "PANIC".to_string());
        println!("{}", r);
    });
}

/// wakeup() issued from inside a source callback, sequential and timed (C11): case = ops over
///   p (ping the source), w (LoopSignal::wakeup from outside), W<k> (the ping callback calls wakeup() k times, for the next callback),
///   d<ms> (dispatch with that timeout, measured), e (make the next ping callback fail the dispatch: returns an error once)
/// Output per d: elapsed_ms:callbacks
fn run_wake_case(line: &str) -> String {
    use std::cell::Cell;
    use std::rc::Rc;
    let mut event_loop: EventLoop<'static, ()> = EventLoop::try_new().expect("loop");
    let signal = event_loop.get_signal();
    let (ping, source) = calloop::ping::make_ping().expect("ping");
    let cb_wakes = Rc::new(Cell::new(0u32));
    let calls = Rc::new(Cell::new(0u32));
    let (cw, cl, sg) = (cb_wakes.clone(), calls.clone(), signal.clone());
    let _t = event_loop
        .handle()
        .insert_source(source, move |_, _, _| {
            cl.set(cl.get() + 1);
            for _ in 0..cw.get() {
                sg.wakeup();
            }
            cw.set(0);
        })
        .expect("insert");
    let mut out = vec![];
    for op in line.split_whitespace() {
        match op.as_bytes()[0] {
            b'p' => ping.ping(),
            b'w' => signal.wakeup(),
            b'W' => cb_wakes.set(op[1..].parse().unwrap_or(1)),
            b'T' => {
                // a pending timer, due in <ms>: a wait that it bounds must still be cut short by a wake-up
                let ms: u64 = op[1..].parse().unwrap_or(1000);
                let _ = event_loop
                    .handle()
                    .insert_source(calloop::timer::Timer::from_duration(std::time::Duration::from_millis(ms)), |_, _, _| {
                        calloop::timer::TimeoutAction::Drop
                    });
            }
            b'd' => {
                let ms: u64 = op[1..].parse().unwrap_or(0);
                let before = calls.get();
                let t0 = std::time::Instant::now();
                let _ = event_loop.dispatch(Some(std::time::Duration::from_millis(ms)), &mut ());
                out.push(format!("{}:{}", t0.elapsed().as_millis(), calls.get() - before));
            }
            _ => {}
        }
    }
    std::mem::forget(ping);
    out.join(" ")
}

/// block_on with a future that asks for a stop from inside one of its polls (C11: a stop request issued after block_on began is
/// never lost). Case: script of poll outcomes, p = Pending after waking itself, s = calls stop() and wakeup() and returns Pending.
/// block_on must return None right after the poll that asked for the stop; a watchdog rescues a hung loop after 1.5 s.
fn run_stop_case(line: &str) -> String {
    use std::cell::Cell;
    use std::future::Future;
    use std::pin::Pin;
    use std::rc::Rc;
    use std::task::{Context, Poll};
    struct Scripted {
        script: Vec<u8>,
        idx: Rc<Cell<usize>>,
        signal: calloop::LoopSignal,
    }
    impl Future for Scripted {
        type Output = u8;
        fn poll(self: Pin<&mut Self>, cx: &mut Context<'_>) -> Poll<u8> {
            let k = self.idx.get();
            self.idx.set(k + 1);
            match self.script.get(k).copied() {
                Some(b's') => {
                    self.signal.stop();
                    self.signal.wakeup();
                    Poll::Pending
                }
                Some(b'p') => {
                    cx.waker().wake_by_ref();
                    Poll::Pending
                }
                _ => Poll::Ready(1),
            }
        }
    }
    let mut event_loop: EventLoop<'static, ()> = EventLoop::try_new().expect("loop");
    let signal = event_loop.get_signal();
    let polls = Rc::new(Cell::new(0usize));
    let fut = Scripted { script: line.trim().bytes().collect(), idx: polls.clone(), signal: signal.clone() };
    let rescued = std::sync::Arc::new(std::sync::atomic::AtomicBool::new(false));
    let done = std::sync::Arc::new(std::sync::atomic::AtomicBool::new(false));
    let (r2, d2, s2) = (rescued.clone(), done.clone(), signal.clone());
    let dog = std::thread::spawn(move || {
        for _ in 0..150 {
            std::thread::sleep(std::time::Duration::from_millis(10));
            if d2.load(std::sync::atomic::Ordering::SeqCst) {
                return;
            }
        }
        r2.store(true, std::sync::atomic::Ordering::SeqCst);
        s2.stop();
        s2.wakeup();
    });
    let t0 = std::time::Instant::now();
    let r = event_loop.block_on(fut, &mut (), |_| {});
    let el = t0.elapsed().as_millis();
    done.store(true, std::sync::atomic::Ordering::SeqCst);
    let _ = dog.join();
    let res = match r {
        Ok(Some(_)) => "SOME",
        Ok(None) => "NONE",
        Err(_) => "ERR",
    };
    format!("{} polls={} rescued={} ms={}", res, polls.get(), rescued.load(std::sync::atomic::Ordering::SeqCst) as u8, el)
}

pub fn run_stop() {
    crate::for_each_line(|l| {
        let r = std::panic::catch_unwind(|| run_stop_case(l)).unwrap_or_else(|_| "PANIC".to_string());
        println!("{}", r);
    });
}

pub fn run_wake() {
    crate::for_each_line(|l| {
        let r = std::panic::catch_unwind(|| run_wake_case(l)).unwrap_or_else(|_| "PANIC".to_string());
        println!("{}", r);
    });
}
