//! TransientSource driven through a real event loop with instrumented children (C18).
//! Input: one case per line: `from|default op op ...` with ops evC evR evD evM rm rp reg rereg unreg and e<A>m / e<A>p (child's event
//! answered A in C R D M, then remove() / replace(new) by the parent inside the same process_events, which returns Reregister).
//!   e<A>d: the child's event answered A and the parent answers PostAction::Disable itself (the loop then unregisters the parent directly).
//! Output: one line per case with the observations of the children and of the wrapper.
use calloop::generic::Generic;
use calloop::transient::TransientSource;
use calloop::{Dispatcher, EventLoop, EventSource, Interest, Mode, Poll, PostAction, Readiness, RegistrationToken, Token, TokenFactory};
use std::cell::{Cell, RefCell};
use std::os::fd::{AsFd, BorrowedFd, OwnedFd};
use std::rc::Rc;
use std::time::Duration;

#[derive(Debug)]
struct SharedFd(Rc<OwnedFd>);
impl AsFd for SharedFd {
    fn as_fd(&self) -> BorrowedFd<'_> {
        self.0.as_fd()
    }
}

type Log = Rc<RefCell<Vec<String>>>;

thread_local! {
    static FAIL_NEXT_REGISTER: Cell<bool> = const { Cell::new(false) };
}

struct IChild {
    id: u64,
    gen: Generic<SharedFd>,
    fd: Rc<OwnedFd>,
    reg: bool,
    answer: Rc<Cell<u8>>,
    log: Log,
}

impl Drop for IChild {
    fn drop(&mut self) {
        self.log.borrow_mut().push(format!("D{}:{}", self.id, self.reg as u8));
    }
}

// only needed because `TransientSource<T>: Default` is derived with a `T: Default` bound; never instantiated
impl Default for IChild {
    fn default() -> Self {
        let mut fds = vec![];
        new_child(u64::MAX, &Rc::new(Cell::new(0)), &Rc::new(RefCell::new(vec![])), &mut fds)
    }
}

fn pa(code: u8) -> PostAction {
    match code {
        0 => PostAction::Continue,
        1 => PostAction::Reregister,
        2 => PostAction::Disable,
        _ => PostAction::Remove,
    }
}

impl EventSource for IChild {
    type Event = u64;
    type Metadata = ();
    type Ret = ();
    type Error = std::io::Error;

    fn process_events<F>(&mut self, readiness: Readiness, token: Token, mut callback: F) -> Result<PostAction, Self::Error>
    where
        F: FnMut(Self::Event, &mut Self::Metadata) -> Self::Ret,
    {
        let id = self.id;
        let fd = self.fd.clone();
        let log = self.log.clone();
        let ans = self.answer.get();
        let mut fired = false;
        let r = self.gen.process_events(readiness, token, |_, _| {
            fired = true;
            let mut buf = [0u8; 8];
            let _ = rustix::io::read(&*fd, &mut buf);
            log.borrow_mut().push(format!("F{}", id));
            callback(id, &mut ());
            Ok(pa(ans))
        })?;
        Ok(if fired { r } else { PostAction::Continue })
    }
    fn register(&mut self, poll: &mut Poll, tf: &mut TokenFactory) -> calloop::Result<()> {
        // injected failure (transfail cases): the child refuses this one registration
        if FAIL_NEXT_REGISTER.with(|f| f.replace(false)) {
            self.log.borrow_mut().push(format!("G{}:0", self.id));
            return Err(calloop::Error::IoError(std::io::Error::new(std::io::ErrorKind::Other, "injected")));
        }
        let r = self.gen.register(poll, tf);
        if r.is_ok() {
            self.reg = true;
        }
        self.log.borrow_mut().push(format!("G{}:{}", self.id, r.is_ok() as u8));
        r
    }
    fn reregister(&mut self, poll: &mut Poll, tf: &mut TokenFactory) -> calloop::Result<()> {
        let r = self.gen.reregister(poll, tf);
        self.log.borrow_mut().push(format!("Y{}:{}", self.id, r.is_ok() as u8));
        r
    }
    fn unregister(&mut self, poll: &mut Poll) -> calloop::Result<()> {
        let r = self.gen.unregister(poll);
        if r.is_ok() {
            self.reg = false;
        }
        self.log.borrow_mut().push(format!("U{}:{}", self.id, r.is_ok() as u8));
        r
    }
}

/// transparent observer around the TransientSource: logs what it returns to the loop
struct Obs {
    inner: TransientSource<IChild>,
    log: Log,
    // what the parent does right after its child's event, inside the same process_events: 0 nothing, 1 remove(), 2 replace(new)
    then: Rc<Cell<u8>>,
    answer: Rc<Cell<u8>>,
    fds: Fds,
    next_id: Rc<Cell<u64>>,
}
type Fds = Rc<RefCell<Vec<(u64, Rc<OwnedFd>)>>>;
impl EventSource for Obs {
    type Event = u64;
    type Metadata = ();
    type Ret = ();
    type Error = std::io::Error;
    fn process_events<F>(&mut self, readiness: Readiness, token: Token, callback: F) -> Result<PostAction, Self::Error>
    where
        F: FnMut(Self::Event, &mut Self::Metadata) -> Self::Ret,
    {
        let before = self.log.borrow().len();
        let r = self.inner.process_events(readiness, token, callback);
        // only events that were forwarded are visible in the model (OpEvent is a no-op otherwise)
        let forwarded = self.log.borrow()[before..].iter().any(|l| l.starts_with('F'));
        if let Ok(a) = &r {
            let code = match a {
                PostAction::Continue => 0,
                PostAction::Reregister => 1,
                PostAction::Disable => 2,
                PostAction::Remove => 3,
            };
            if forwarded || code != 0 {
                self.log.borrow_mut().push(format!("T{}", code));
            }
        }
        if forwarded && r.is_ok() {
            match self.then.get() {
                1 => {
                    self.inner.remove();
                    return Ok(PostAction::Reregister);
                }
                2 => {
                    let id = self.next_id.get();
                    self.next_id.set(id + 1);
                    let c = new_child(id, &self.answer, &self.log, &mut self.fds.borrow_mut());
                    self.inner.replace(c);
                    return Ok(PostAction::Reregister);
                }
                // the parent answers Disable itself: the loop unregisters it directly, without the reregistration the child asked for
                // (outside the Coq model's operations; judged by py/p_c18.py on the calls the child saw)
                3 => return Ok(PostAction::Disable),
                _ => {}
            }
        }
        r
    }
    fn register(&mut self, poll: &mut Poll, tf: &mut TokenFactory) -> calloop::Result<()> {
        let r = self.inner.register(poll, tf);
        self.log.borrow_mut().push(format!("S{}", r.is_ok() as u8));
        r
    }
    fn reregister(&mut self, poll: &mut Poll, tf: &mut TokenFactory) -> calloop::Result<()> {
        let r = self.inner.reregister(poll, tf);
        self.log.borrow_mut().push(format!("S{}", r.is_ok() as u8));
        r
    }
    fn unregister(&mut self, poll: &mut Poll) -> calloop::Result<()> {
        let r = self.inner.unregister(poll);
        self.log.borrow_mut().push(format!("S{}", r.is_ok() as u8));
        r
    }
}

fn new_child(id: u64, answer: &Rc<Cell<u8>>, log: &Log, fds: &mut Vec<(u64, Rc<OwnedFd>)>) -> IChild {
    let fd = Rc::new(
        rustix::event::eventfd(0, rustix::event::EventfdFlags::CLOEXEC | rustix::event::EventfdFlags::NONBLOCK).expect("eventfd"),
    );
    fds.push((id, fd.clone()));
    IChild {
        id,
        gen: Generic::new(SharedFd(fd.clone()), Interest::READ, Mode::Level),
        fd,
        reg: false,
        answer: answer.clone(),
        log: log.clone(),
    }
}

fn run_case(line: &str) -> String {
    let ws: Vec<&str> = line.split_whitespace().collect();
    if ws.is_empty() {
        return String::new();
    }
    let log: Log = Rc::new(RefCell::new(vec![]));
    let answer = Rc::new(Cell::new(0u8));
    let fds: Fds = Rc::new(RefCell::new(vec![]));
    let next_id = Rc::new(Cell::new(1u64));
    let then = Rc::new(Cell::new(0u8));
    let mut event_loop: EventLoop<'static, ()> = EventLoop::try_new().expect("loop");
    let handle = event_loop.handle();
    let inner: TransientSource<IChild> = if ws[0] == "from" {
        new_child(0, &answer, &log, &mut fds.borrow_mut()).into()
    } else {
        TransientSource::default()
    };
    let disp = Dispatcher::new(
        Obs {
            inner,
            log: log.clone(),
            then: then.clone(),
            answer: answer.clone(),
            fds: fds.clone(),
            next_id: next_id.clone(),
        },
        |_, _, _: &mut ()| {},
    );
    let mut token: Option<RegistrationToken> = None;
    for op in &ws[1..] {
        match *op {
            "evC" | "evR" | "evD" | "evM" | "eCm" | "eRm" | "eDm" | "eMm" | "eCp" | "eRp" | "eDp" | "eMp" | "eCd" | "eRd" | "eDd" | "eMd" => {
                answer.set(match op.as_bytes()[if op.len() == 3 && !op.starts_with("ev") { 1 } else { 2 }] {
                    b'C' => 0,
                    b'R' => 1,
                    b'D' => 2,
                    _ => 3,
                });
                then.set(if op.starts_with("ev") {
                    0
                } else if op.ends_with('m') {
                    1
                } else if op.ends_with('d') {
                    3
                } else {
                    2
                });
                let cur = disp.as_source_mut().inner.map(|c| c.id);
                if let Some(id) = cur {
                    if let Some((_, fd)) = fds.borrow().iter().find(|(i, _)| *i == id) {
                        let _ = rustix::io::write(&**fd, &1u64.to_ne_bytes());
                    }
                } else {
                    // no current child (removed / nothing yet): the fds of every child ever made become ready - a removed child that is
                    // still registered (its unregistration waits for the reregistration) must not be forwarded
                    for (_, fd) in fds.borrow().iter() {
                        let _ = rustix::io::write(&**fd, &1u64.to_ne_bytes());
                    }
                }
                let before = log.borrow().len();
                let r = event_loop.dispatch(Some(Duration::ZERO), &mut ());
                let _ = r;
                let _ = before;
                then.set(0);
                for (_, fd) in fds.borrow().iter() {
                    let mut buf = [0u8; 8];
                    let _ = rustix::io::read(&**fd, &mut buf);
                }
            }
            "rm" => disp.as_source_mut().inner.remove(),
            "rp" => {
                let id = next_id.get();
                next_id.set(id + 1);
                let c = new_child(id, &answer, &log, &mut fds.borrow_mut());
                disp.as_source_mut().inner.replace(c);
            }
            "reg" => match token {
                None => match handle.register_dispatcher(disp.clone()) {
                    Ok(t) => token = Some(t),
                    Err(_) => {}
                },
                Some(t) => {
                    let _ = handle.enable(&t);
                }
            },
            "rereg" => {
                if let Some(t) = token {
                    let _ = handle.update(&t);
                }
            }
            "unreg" => {
                if let Some(t) = token {
                    let _ = handle.disable(&t);
                }
            }
            _ => {}
        }
    }
    let (none, some) = {
        let mut s = disp.as_source_mut();
        (s.inner.is_none(), s.inner.map(|_| ()).is_some())
    };
    let out = format!("{} | none={} map={}", log.borrow().join(" "), none as u8, some as u8);
    // silence the drops that happen at tear-down
    let l2 = log.clone();
    drop(event_loop);
    drop(disp);
    let _ = l2;
    out
}

/// A TransientSource whose child refuses one registration (C15): the failed insertion / enable() must leave the wrapper as it was, so
/// that the same call, repeated, succeeds and the child's events are delivered.
/// Case: `insert` (the first register_dispatcher fails) or `enable` (inserted, disabled, the first enable() fails).
/// Output: first_err none_after_failure retry_ok delivered
fn run_fail_case(line: &str) -> String {
    let log: Log = Rc::new(RefCell::new(vec![]));
    let answer = Rc::new(Cell::new(0u8));
    let fds: Fds = Rc::new(RefCell::new(vec![]));
    let mut event_loop: EventLoop<'static, ()> = EventLoop::try_new().expect("loop");
    let handle = event_loop.handle();
    let inner: TransientSource<IChild> = new_child(0, &answer, &log, &mut fds.borrow_mut()).into();
    let disp = Dispatcher::new(
        Obs {
            inner,
            log: log.clone(),
            then: Rc::new(Cell::new(0u8)),
            answer: answer.clone(),
            fds: fds.clone(),
            next_id: Rc::new(Cell::new(1u64)),
        },
        |_, _, _: &mut ()| {},
    );
    let (first_err, retry_ok);
    let none_after_failure;
    if line.trim() == "insert" {
        FAIL_NEXT_REGISTER.with(|f| f.set(true));
        first_err = handle.register_dispatcher(disp.clone()).is_err();
        none_after_failure = disp.as_source_mut().inner.is_none();
        retry_ok = handle.register_dispatcher(disp.clone()).is_ok();
    } else {
        let t = handle.register_dispatcher(disp.clone()).expect("insert");
        handle.disable(&t).expect("disable");
        FAIL_NEXT_REGISTER.with(|f| f.set(true));
        first_err = handle.enable(&t).is_err();
        none_after_failure = disp.as_source_mut().inner.is_none();
        retry_ok = handle.enable(&t).is_ok();
    }
    FAIL_NEXT_REGISTER.with(|f| f.set(false));
    let before = log.borrow().len();
    if let Some((_, fd)) = fds.borrow().first() {
        let _ = rustix::io::write(&**fd, &1u64.to_ne_bytes());
    }
    let _ = event_loop.dispatch(Some(Duration::ZERO), &mut ());
    let delivered = log.borrow()[before..].iter().any(|l| l == "F0");
    let out = format!(
        "first_err={} none_after_failure={} retry_ok={} delivered={}",
        first_err as u8, none_after_failure as u8, retry_ok as u8, delivered as u8
    );
    drop(event_loop);
    drop(disp);
    out
}

pub fn run_fail() {
    crate::for_each_line(|l| {
        let r = std::panic::catch_unwind(|| run_fail_case(l)).unwrap_or_else(|_| "PANIC".to_string());
        println!("{}", r);
    });
}

pub fn run() {
    crate::for_each_line(|l| {
        let r = std::panic::catch_unwind(|| run_case(l)).unwrap_or_else(|_| "PANIC".to_string());
        println!("{}", r);
    });
}
