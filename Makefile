# Build orchestration for the verification framework (offline).
SHELL := /bin/bash
COQDIR := coq
VFILES := $(wildcard coq/theories/*.v coq/proofs/*.v coq/props/*.v)
OCAMLDIR := ocaml
J ?= 16

.PHONY: all setup coq model harness clean

all: setup
setup: coq model harness

$(COQDIR)/Makefile.coq: $(COQDIR)/_CoqProject $(VFILES)
	cd $(COQDIR) && coq_makefile -f _CoqProject $(patsubst coq/%,%,$(VFILES)) -o Makefile.coq 2>/dev/null

coq: $(COQDIR)/Makefile.coq
	cd $(COQDIR) && timeout 3000 $(MAKE) -f Makefile.coq -j$(J) --no-print-directory

# one .vo target (used by the per-property checks): make vo T=props/C20.vo
vo: $(COQDIR)/Makefile.coq
	cd $(COQDIR) && timeout 3000 $(MAKE) -f Makefile.coq -j$(J) --no-print-directory $(T)

MODEL_DEPS := $(wildcard coq/theories/*.v) coq/extract/Extract.v
$(OCAMLDIR)/gen/model.ml: $(MODEL_DEPS) $(COQDIR)/Makefile.coq
	cd $(COQDIR) && timeout 3000 $(MAKE) -f Makefile.coq -j$(J) --no-print-directory $(patsubst coq/%.v,%.vo,$(wildcard coq/theories/*.v))
	mkdir -p $(OCAMLDIR)/gen
	cd $(OCAMLDIR)/gen && timeout 600 coqc -w -all -Q ../../coq/theories CV ../../coq/extract/Extract.v > extract.log 2>&1 || (cat extract.log; exit 1)

$(OCAMLDIR)/driver: $(OCAMLDIR)/gen/model.ml $(wildcard ocaml/*.ml)
	cd $(OCAMLDIR) && timeout 600 ocamlfind ocamlopt -O2 -w -a -package zarith,str -linkpkg -I gen gen/model.mli gen/model.ml util.ml $(patsubst ocaml/%,%,$(filter-out ocaml/util.ml ocaml/driver.ml,$(wildcard ocaml/*.ml))) driver.ml -o driver 2>&1 | grep -v "^$$" ; test -x driver

model: $(OCAMLDIR)/driver

harness:
	cd harness && flock ../.cargo.lock timeout 1800 cargo build --offline 2>&1 | tail -3

clean:
	rm -rf coq/Makefile.coq* coq/.Makefile.coq.d ocaml/gen ocaml/driver ocaml/*.cm* ocaml/*.o harness/target
	find coq -name '*.vo*' -o -name '*.glob' -o -name '.*.aux' | xargs rm -f
