(* effective wait of a dispatch according to the model (C12). Case: timeout_ms(-1 none) timer_ms(-1 none,-2 max,-3 expired) idle
   Output: effective wait in ms (-1 = forever) and whether the timer is the limit *)
open Model
open Util
let zt (z : ZZ.t) : Model.z = if ZZ.sign z = 0 then Z0 else if ZZ.sign z > 0 then Zpos (pos_of_z z) else Zneg (pos_of_z (ZZ.neg z))
let tz (z : Model.z) : ZZ.t = match z with Z0 -> ZZ.zero | Zpos p -> z_of_pos p | Zneg p -> ZZ.neg (z_of_pos p)
let handle ws =
  match List.map int_of_string ws with
  | [timeout; timer; _] ->
      let now = 1000000 in
      let t = if timeout < 0 then None else Some (zt (ZZ.of_int timeout)) in
      let next = (match timer with -1 | -2 -> None | -3 -> Some (zt (ZZ.of_int (now - 5))) | ms -> Some (zt (ZZ.of_int (now + ms)))) in
      let e = eff_timeout t false next (zt (ZZ.of_int now)) in
      let fires = (match e, next with Some e, Some d -> ZZ.equal (tz e) (ZZ.max ZZ.zero (ZZ.sub (tz d) (ZZ.of_int now))) | _ -> false) in
      Printf.sprintf "%s %d" (match e with None -> "-1" | Some e -> ZZ.to_string (tz e)) (if fires then 1 else 0)
  | _ -> "BAD"
let run () = iter_lines (fun l -> print_endline (handle (words l)))
