(* effective wait of a dispatch according to the model (C12). Case: timeout_ms(-1 none) timer_ms(-1 none,-2 max,-3 expired) idle
   Output: effective wait in ms (-1 = forever) and whether the timer is the limit *)
open Model
open Util
let zt (z : ZZ.t) : Model.z = if ZZ.sign z = 0 then Z0 else if ZZ.sign z > 0 then Zpos (pos_of_z z) else Zneg (pos_of_z (ZZ.neg z))
let tz (z : Model.z) : ZZ.t = match z with Z0 -> ZZ.zero | Zpos p -> z_of_pos p | Zneg p -> ZZ.neg (z_of_pos p)
let handle ws =
  match List.map int_of_string ws with
  | [timeout; timer; _] ->
      let now = 1000000 in
      (* -1: None; -2: Some(Duration::MAX), in ms *)
      let t = if timeout = -2 then Some (zt (ZZ.of_string "18446744073709551615999")) else if timeout < 0 then None else Some (zt (ZZ.of_int timeout)) in
      let next = (match timer with -1 | -2 -> None | -3 -> Some (zt (ZZ.of_int (now - 5)))
                                 | -4 -> Some (zt (ZZ.add (ZZ.of_int now) (ZZ.of_string "18446744073709551716")))   (* 2^64 ms + 100 ms *)
                                 | ms -> Some (zt (ZZ.of_int (now + ms)))) in
      let e = eff_timeout t false next (zt (ZZ.of_int now)) in
      let fires = (match e, next with Some e, Some d -> ZZ.equal (tz e) (ZZ.max ZZ.zero (ZZ.sub (tz d) (ZZ.of_int now))) | _ -> false) in
      Printf.sprintf "%s %d" (match e with None -> "-1" | Some e -> ZZ.to_string (tz e)) (if fires then 1 else 0)
  | _ -> "BAD"
let run () = iter_lines (fun l -> print_endline (handle (words l)))

(* histories of several timers over the model's wheel (Loop.timer_register / timer_unregister / timer_reregister), then the
   wait of one idle dispatch(timeout) starting at time 0: prints the effective wait in ms and the timers due at its end *)
let handle2 line =
  match String.split_on_char '|' line with
  | [t; ops] ->
      let timeout = int_of_string (String.trim t) in
      let e = ref init.en in
      let timers : (int, timer) Hashtbl.t = Hashtbl.create 8 in
      let fac k = factory_new { t_id = n_of_int k; t_ver = N0; t_sub = N0 } in
      List.iter (fun op ->
          let kind = op.[0] in
          let rest = String.sub op 1 (String.length op - 1) in
          let k, ms = (match String.split_on_char ':' rest with [a; b] -> int_of_string a, int_of_string b | [a] -> int_of_string a, 0 | _ -> 0, 0) in
          match kind with
          | 'i' ->
              let tm = { tm_reg = None; tm_dl = Some (zt (ZZ.of_int ms)); tm_en = false } in
              let ((_, tm'), e') = timer_register !e tm (fac k) in
              Hashtbl.replace timers k tm'; e := e'
          | 's' -> (match Hashtbl.find_opt timers k with
              | Some tm ->
                  let tm1 = { tm with tm_dl = Some (zt (ZZ.of_int ms)) } in
                  let ((_, tm'), e') = timer_reregister !e tm1 (fac k) in
                  Hashtbl.replace timers k tm'; e := e'
              | None -> ())
          | 'x' -> (match Hashtbl.find_opt timers k with
              | Some tm -> let (tm', e') = timer_unregister !e tm in Hashtbl.replace timers k tm'; e := e'
              | None -> ())
          | 'n' -> (match Hashtbl.find_opt timers k with
              | Some tm -> let ((_, tm'), e') = timer_register !e tm (fac k) in Hashtbl.replace timers k tm'; e := e'
              | None -> ())
          | 'r' -> (match Hashtbl.find_opt timers k with
              | Some tm -> let (_, e') = timer_unregister !e tm in Hashtbl.remove timers k; e := e'
              | None -> ())
          | _ -> ()) (words ops);
      let next = wh_next_deadline !e.whl in
      let eff = eff_timeout (Some (zt (ZZ.of_int timeout))) false next Z0 in
      let effi = (match eff with Some x -> ZZ.to_int (tz x) | None -> -1) in
      (* the timers whose arming is due when the wait ends *)
      let due = Hashtbl.fold (fun k tm acc ->
          match tm.tm_reg, tm.tm_dl with
          | Some _, Some d when ZZ.to_int (tz d) <= effi -> k :: acc
          | _ -> acc) timers [] in
      Printf.sprintf "%d %s" effi (if due = [] then "-" else String.concat "," (List.map string_of_int (List.sort compare due)))
  | _ -> "BAD"
let run2 () = iter_lines (fun l -> print_endline (handle2 l))
