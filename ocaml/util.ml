(* Conversions between the extracted inductive numbers and OCaml/Zarith numbers, plus small helpers.
   Trusted glue. *)
open Model

let rec z_of_pos (p : positive) : Z.t =
  match p with
  | XH -> Z.one
  | XO q -> Z.shift_left (z_of_pos q) 1
  | XI q -> Z.succ (Z.shift_left (z_of_pos q) 1)

let rec pos_of_z (z : Z.t) : positive =
  if Z.equal z Z.one then XH
  else if Z.is_even z then XO (pos_of_z (Z.shift_right z 1))
  else XI (pos_of_z (Z.shift_right z 1))

let z_of_n (n : n) : Z.t = match n with N0 -> Z.zero | Npos p -> z_of_pos p
let n_of_z (z : Z.t) : n = if Z.sign z <= 0 then N0 else Npos (pos_of_z z)
let n_of_string s = n_of_z (Z.of_string s)
let string_of_n n = Z.to_string (z_of_n n)
let n_of_int i = n_of_z (Z.of_int i)
let int_of_n n = Z.to_int (z_of_n n)

let rec nat_of_int i : nat = if i <= 0 then O else S (nat_of_int (i - 1))
let rec int_of_nat (n : nat) = match n with O -> 0 | S m -> 1 + int_of_nat m

let words (s : string) : string list =
  List.filter (fun w -> w <> "") (String.split_on_char ' ' (String.trim s))

let iter_lines (f : string -> unit) : unit =
  try while true do f (input_line stdin) done with End_of_file -> ()
