(* Conversions between the extracted inductive numbers and OCaml/Zarith numbers, plus small helpers.
   Trusted glue. *)
module ZZ = Z
open Model

let rec z_of_pos (p : positive) : ZZ.t =
  match p with
  | XH -> ZZ.one
  | XO q -> ZZ.shift_left (z_of_pos q) 1
  | XI q -> ZZ.succ (ZZ.shift_left (z_of_pos q) 1)

let rec pos_of_z (z : ZZ.t) : positive =
  if ZZ.equal z ZZ.one then XH
  else if ZZ.is_even z then XO (pos_of_z (ZZ.shift_right z 1))
  else XI (pos_of_z (ZZ.shift_right z 1))

let z_of_n (n : n) : ZZ.t = match n with N0 -> ZZ.zero | Npos p -> z_of_pos p
let n_of_z (z : ZZ.t) : n = if ZZ.sign z <= 0 then N0 else Npos (pos_of_z z)
let n_of_string s = n_of_z (ZZ.of_string s)
let string_of_n n = ZZ.to_string (z_of_n n)
let n_of_int i = n_of_z (ZZ.of_int i)
let int_of_n n = ZZ.to_int (z_of_n n)

let rec nat_of_int i : nat = if i <= 0 then O else S (nat_of_int (i - 1))
let rec int_of_nat (n : nat) = match n with O -> 0 | S m -> 1 + int_of_nat m

let words (s : string) : string list =
  List.filter (fun w -> w <> "") (String.split_on_char ' ' (String.trim s))

let iter_lines (f : string -> unit) : unit =
  try while true do f (input_line stdin) done with End_of_file -> ()
