(* replays the reader-side event log of a real Async adapter run in the SrcAsync model (C17):
   line: <total bytes> | events (P task polled, Rn read n bytes, B WouldBlock, Wk peer wrote k, D dispatch)
   prints OK or the first event at which the model and the implementation disagree *)
open Model
open Util

let handle line =
  match String.split_on_char '|' line with
  | [total; evs] ->
      let total = n_of_string (String.trim total) in
      let s = ref (a_init total) in
      let res = ref "OK" in
      let i = ref 0 in
      let fail msg = if !res = "OK" then res := Printf.sprintf "MISMATCH at event %d: %s" !i msg in
      List.iter (fun e ->
          incr i;
          let k () = n_of_string (String.sub e 1 (String.length e - 1)) in
          (match e.[0] with
           | 'W' -> s := a_step !s (APeer (k ()))
           | 'D' -> s := a_step !s ADispatch
           | 'P' -> (match !s.status with TRunnable -> () | TFinished -> () | TSuspended -> fail "the task was polled although the model has it suspended (no wake was due)")
           | 'R' ->
               if ZZ.sign (z_of_n !s.avail) = 0 then fail "the read succeeded although the model's fd has nothing to transfer"
               else begin
                 let before = z_of_n !s.moved in
                 s := a_step !s (APoll (k ()));
                 if not (ZZ.equal (ZZ.sub (z_of_n !s.moved) before) (z_of_n (k ()))) then fail "the read size is outside 1..min(wanted, available)"
               end
           | 'B' ->
               if ZZ.sign (z_of_n !s.avail) > 0 then fail "WouldBlock although the model's fd can transfer"
               else s := a_step !s (APoll N0)
           | _ -> ())) (words evs);
      (* after the last read the task observes todo = 0 and finishes *)
      s := a_step !s (APoll N0);
      if !res = "OK" then
        (match !s.status with
         | TFinished -> if ZZ.equal (z_of_n !s.moved) (z_of_n total) then "OK" else "MISMATCH: finished with a wrong byte count"
         | TSuspended -> "MODEL-SUSPENDED"
         | TRunnable -> "MODEL-RUNNABLE")
      else !res
  | _ -> "BAD"

let run () = iter_lines (fun l -> print_endline (handle l))
