(* Entry point: driver <model> reads cases on stdin, prints one result line per case. *)
let () =
  match Array.to_list Sys.argv with
  | _ :: "token" :: _ -> M_token.run ()
  | _ :: "cping" :: _ -> M_cping.run ()
  | _ :: "timing2" :: _ -> M_timing.run2 ()
  | _ :: "async" :: _ -> M_async.run ()
  | _ :: "asyncw" :: _ -> M_asyncw.run ()
  | _ :: "genlife" :: _ -> M_genlife.run ()
  | _ :: "streamq" :: _ -> M_streamq.run ()
  | _ :: "cexec" :: _ -> M_cexec.run ()
  | _ :: "crun" :: _ -> M_crun.run ()
  | _ :: "cchan" :: _ -> M_cchan.run ()
  | _ :: "timing" :: _ -> M_timing.run ()
  | _ :: "signals" :: _ -> M_signals.run ()
  | _ :: "transient" :: _ -> M_transient.run ()
  | _ :: "seq" :: scen :: trace :: _ -> M_seq.run scen trace
  | _ -> prerr_endline "usage: driver <token|...>"; exit 2
