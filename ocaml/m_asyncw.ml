(* driver for the two-direction wait model of the Async adapter (C17): same case lines as harness/src/m_asyncw.rs
   ops: pr1 pr0 pw1 pw0 (poll readable()/writable(); 1 = stay suspended on Pending, 0 = abandon the wait), er0 er1 ew0 ew1
   (the fd becomes un/readable, un/writable), d (dispatch), t (the task is polled again if it was woken) *)
open Model
open Util

let handle line =
  let s = ref w_init in
  let out = ref [] in
  let poll d stay =
    s := w_step !s (WPoll (d, stay));
    (match !s.wout with x :: _ when int_of_string (string_of_n x) = 1 -> out := "R" :: !out | _ -> out := "P" :: !out) in
  List.iter (fun w ->
      match w with
      | "pr1" -> poll DR true | "pr0" -> poll DR false | "pw1" -> poll DW true | "pw0" -> poll DW false
      | "er0" -> s := w_step !s (WEnvR false); out := "e" :: !out
      | "er1" -> s := w_step !s (WEnvR true); out := "e" :: !out
      | "ew0" -> s := w_step !s (WEnvW false); out := "e" :: !out
      | "ew1" -> s := w_step !s (WEnvW true); out := "e" :: !out
      | "d" ->
          s := w_step !s WDispatch;
          (match !s.wout with x :: _ when int_of_string (string_of_n x) = 3 -> out := "w1" :: !out | _ -> out := "w0" :: !out)
      | "t" ->
          (match !s.woken, !s.susp with
           | true, Some d -> poll d true
           | _ -> out := "-" :: !out)
      | _ -> out := "?" :: !out) (words line);
  String.concat " " (List.rev !out)

let run () = iter_lines (fun l -> print_endline (handle l))
