(* driver for the sequential loop model: parses scenario files, feeds the batch orders recorded by the
   implementation run, prints the model's trace in the canonical line format. Trusted glue. *)
open Model
open Util
module ZZ = Util.ZZ

let zt (z : ZZ.t) : Model.z = if ZZ.sign z = 0 then Z0 else if ZZ.sign z > 0 then Zpos (pos_of_z z) else Zneg (pos_of_z (ZZ.neg z))
let tz (z : Model.z) : ZZ.t = match z with Z0 -> ZZ.zero | Zpos p -> z_of_pos p | Zneg p -> ZZ.neg (z_of_pos p)
let zs s = zt (ZZ.of_string s)
let ns s = n_of_string s
let nat_s s = nat_of_int (int_of_string s)
let optn s = if s = "-1" then None else Some (ns s)

let mkgen fd it md = { g_fd = ns fd; g_int = int_of_code (ns it); g_mode = mode_of_code (ns md); g_tok = None; g_poller = false }

let rec gens = function
  | fd :: it :: md :: rest -> mkgen fd it md :: gens rest
  | _ -> []

let parse_action (ws : string list) : action option =
  match ws with
  | "insert" :: h :: "comp" :: lc :: _n :: rest -> Some (AInsert (ns h, SComp ((lc = "1"), None, gens rest, None)))
  | "insert" :: h :: "compt" :: lc :: dl :: _n :: rest ->
      Some (AInsert (ns h, SComp ((lc = "1"), None, gens rest,
                                  Some { tm_reg = None; tm_dl = (if dl = "-1" then None else Some (zs dl)); tm_en = false })))
  | ["insert"; h; "ping"; fd] -> Some (AInsert (ns h, SPing (mkgen fd "1" "0")))
  | ["insert"; h; "timer"; dl] -> Some (AInsert (ns h, STimer { tm_reg = None; tm_dl = (if dl = "-1" then None else Some (zs dl)); tm_en = false }))
  | ["insert"; h; "chan"; c; fd] -> Some (AInsert (ns h, SChan (ns c, mkgen fd "1" "0")))
  | ["remove"; h] -> Some (ARemove (ns h))
  | ["disable"; h] -> Some (ADisable (ns h))
  | ["enable"; h] -> Some (AEnable (ns h))
  | ["update"; h] -> Some (AUpdate (ns h))
  | ["setint"; h; j; it; md] -> Some (ASetInt (ns h, nat_s j, int_of_code (ns it), mode_of_code (ns md)))
  | ["setdl"; h; dl] -> Some (ASetDl (ns h, zs dl))
  | ["intoinner"; h] -> Some (AIntoInner (ns h))
  | ["dropdisp"; h] -> Some (ADropDisp (ns h))
  | ["fdwrite"; fd; v] -> Some (AFdWrite (ns fd, ns v))
  | ["fdread"; fd] -> Some (AFdRead (ns fd))
  | ["ping"; p] -> Some (APing (ns p))
  | ["clonep"; p] -> Some (AcloneP (ns p))
  | ["dropp"; p] -> Some (ADropP (ns p))
  | ["newping"; p; fd] -> Some (ANewPing (ns p, ns fd))
  | ["send"; c; v] -> Some (ASend (ns c, zs v))
  | ["trysend"; c; v] -> Some (ATrySend (ns c, zs v))
  | ["dropsender"; c] -> Some (ADropSender (ns c))
  | ["clonesender"; c] -> Some (ACloneSender (ns c))
  | ["newchan"; c; fd; b] -> Some (ANewChan (ns c, ns fd, optn b))
  | ["idle"; i] -> Some (AIdle (ns i))
  | ["cancelidle"; i] -> Some (ACancelIdle (ns i))
  | ["stopsignal"] -> Some AStopSignal
  | _ -> None

type scen = {
  mutable cmds : cmd list;  (* reversed *)
  scr : (string, script list) Hashtbl.t;   (* reversed lists *)
  bscr : (string, n list) Hashtbl.t;
}

let print_line (L (tag, args)) =
  print_string (string_of_n tag);
  List.iter (fun a -> print_char ' '; print_string (ZZ.to_string (tz a))) args;
  print_newline ()

let run_scen (sc : scen) =
  let tbl f = fun (k : n) -> try List.rev (Hashtbl.find f (string_of_n k)) with Not_found -> [] in
  let st = run (tbl sc.scr) (tbl sc.bscr) (List.rev sc.cmds) in
  List.iter print_line (trace_of st)

(* orders: per scenario id, queue of ORDER lines from the implementation trace *)
let load_orders (path : string) : (string, string list Queue.t) Hashtbl.t =
  let h = Hashtbl.create 64 in
  (try
     let ic = open_in path in
     let cur = ref "" in
     (try while true do
         let l = input_line ic in
         match words l with
         | "===" :: id :: _ -> cur := id; Hashtbl.replace h id (Queue.create ())
         | "0" :: ks -> (try Queue.add ks (Hashtbl.find h !cur) with Not_found -> ())
         | _ -> ()
       done with End_of_file -> close_in ic)
   with Sys_error _ -> ());
  h

let run (scen_path : string) (trace_path : string) =
  let orders = load_orders trace_path in
  let ic = open_in scen_path in
  let cur : scen option ref = ref None in
  let curid = ref "" in
  let pending_script : (string * n * Model.z * int * action list) option ref = ref None in
  let flush_scen () = match !cur with Some sc -> run_scen sc; cur := None | None -> () in
  let fresh () = { cmds = []; scr = Hashtbl.create 16; bscr = Hashtbl.create 4 } in
  let get () = match !cur with Some sc -> sc | None -> let sc = fresh () in cur := Some sc; sc in
  let add_script h sc =
    let s = get () in
    let old = try Hashtbl.find s.scr h with Not_found -> [] in
    Hashtbl.replace s.scr h (sc :: old) in
  let finish_pending () =
    match !pending_script with
    | Some (h, ret, arg, _, acts) -> add_script h { sc_acts = List.rev acts; sc_ret = ret; sc_arg = arg }; pending_script := None
    | None -> () in
  (try while true do
      let l = input_line ic in
      match words l with
      | "===" :: id :: _ -> finish_pending (); flush_scen (); curid := id; Printf.printf "=== %s\n" id; cur := Some (fresh ())
      | "S" :: h :: ret :: arg :: n :: _ ->
          finish_pending ();
          let n = int_of_string n in
          pending_script := Some (h, ns ret, zs arg, n, []);
          if n = 0 then finish_pending ()
      | "A" :: ws ->
          (match !pending_script, parse_action ws with
           | Some (h, ret, arg, n, acts), Some a ->
               pending_script := Some (h, ret, arg, n - 1, a :: acts);
               if n - 1 = 0 then finish_pending ()
           | _ -> print_endline "BADLINE")
      | "B" :: h :: code :: _ ->
          let s = get () in
          let old = try Hashtbl.find s.bscr h with Not_found -> [] in
          Hashtbl.replace s.bscr h (ns code :: old)
      | "C" :: ws -> (match parse_action ws with Some a -> (get ()).cmds <- CAct a :: (get ()).cmds | None -> print_endline "BADLINE")
      | "D" :: t :: _ ->
          let order = try (let q = Hashtbl.find orders !curid in if Queue.is_empty q then [] else Queue.pop q) with Not_found -> [] in
          (get ()).cmds <- CDispatch (zs t, List.map ns order) :: (get ()).cmds
      | "T" :: _ -> (get ()).cmds <- CStats :: (get ()).cmds
      | "E" :: _ -> (get ()).cmds <- CEpoll :: (get ()).cmds
      | [] -> ()
      | w :: _ when String.length w > 0 && w.[0] = '#' -> ()
      | _ -> print_endline "BADLINE"
    done with End_of_file -> close_in ic);
  finish_pending (); flush_scen ()
