(* driver for the StreamSource model (C10, coq/theories/StreamSrc.v): same case lines as harness/src/m_cexec.rs (streamq).
   ops: u<v> (the producer pushes v)  c (the producer closes)  d (one dispatch).  Output: what the callback was given, in order
   (I<v> / END), then REMOVED or STILL *)
open Model
open Util
let parse w = match w.[0] with
  | 'u' -> Some (QPush (n_of_string (String.sub w 1 (String.length w - 1))))
  | 'c' -> Some QClose
  | 'd' -> Some QDispatch
  | _ -> None
let handle line =
  let (d, removed) = q_obs (q_run (List.filter_map parse (words line))) in
  String.concat " " (List.map (fun x -> match x with Some v -> "I" ^ string_of_n v | None -> "END") d @ [if removed then "REMOVED" else "STILL"])
let run () = iter_lines (fun l -> print_endline (handle l))
