(* driver for the concurrent channel model (C04): same case lines as harness/src/m_cchan.rs *)
open Model
open Util

let ev_s = function
  | CCStep (t, y) -> Printf.sprintf "%d:%s" (int_of_nat t) (string_of_n y)
  | CCMsg v -> "M" ^ string_of_n v
  | CCClosed -> "CLOSED"
  | CCRemoved -> "RM"
  | CCFull t -> Printf.sprintf "FULL%d" (int_of_nat t)
  | CCDisc t -> Printf.sprintf "DISC%d" (int_of_nat t)
  | CCSentOk t -> Printf.sprintf "OK%d" (int_of_nat t)

let prog_of tid s =
  let k = ref 0 in
  List.filter_map (function
      | 's' -> let v = tid * 100 + !k in incr k; Some (CSend (n_of_int v))
      | 'b' -> let v = tid * 100 + !k in incr k; Some (CSendB (n_of_int v))
      | 'c' -> Some CClone | 'x' -> Some CDropS | _ -> None)
    (List.init (String.length s) (String.get s))

let has_step (s : ccst) k =
  if k = 0 then (match s.cloop.cl_stage, s.cloop.cl_disp with CLIdle, O -> false | _ -> true)
  else match List.nth_opt s.cthr (k - 1) with
    | Some t -> (match t.ct_stage with CIdle -> t.ct_ops <> [] | CBlocked _ -> false | _ -> true)
    | None -> false

(* a sender blocked on the full queue goes on as soon as there is room (the harness waits for it after every step) *)
let rec settle (s : ccst) : ccst =
  let rec find i = function
    | [] -> None
    | t :: r -> (match t.ct_stage with CBlocked _ when not (cc_full s && s.creg) -> Some i | _ -> find (i + 1) r) in
  match find 0 s.cthr with
  | Some i -> settle (cc_step s (nat_of_int (i + 1)))
  | None -> s
let blocked_left (s : ccst) = List.exists (fun t -> match t.ct_stage with CBlocked _ -> true | _ -> false) s.cthr

let handle line =
  match String.split_on_char '|' line with
  | [head; progs; sched] ->
      (match List.map int_of_string (words head) with
       | [bound; nd] ->
           let progs = List.mapi (fun i p -> prog_of (i + 1) (String.trim p)) (String.split_on_char ';' progs) in
           let sched = List.filter_map (fun c -> if c >= '0' && c <= '9' then Some (Char.code c - 48) else None)
               (List.init (String.length sched) (String.get sched)) in
           let n = List.length progs + 1 in
           let b = if bound < 0 then None else Some (n_of_int bound) in
           let s = ref (cc_init b progs (nat_of_int (nd + 4))) in
           List.iter (fun k -> if k < n then s := settle (cc_step !s (nat_of_int k))) sched;
           let guard = ref 0 in
           let continue = ref true in
           while !continue && !guard < 20000 do
             incr guard;
             let order = (List.init (n - 1) (fun i -> i + 1)) @ [0] in
             match List.find_opt (fun k -> has_step !s k) order with
             | Some k -> s := settle (cc_step !s (nat_of_int k))
             | None -> continue := false
           done;
           String.concat " " (List.rev_map ev_s !s.ctr_log) ^ (if blocked_left !s then " HANG" else "")
       | _ -> "BAD")
  | _ -> "BAD"

let run () = iter_lines (fun l -> print_endline (handle l))
