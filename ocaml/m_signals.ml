(* driver for the Signals model (C19): same case lines as harness/src/m_signals.rs *)
open Model
open Util

let names = [("hup", SHUP); ("usr1", SUSR1); ("usr2", SUSR2); ("cont", SCONT); ("urg", SURG); ("winch", SWINCH)]
let name_of s = fst (List.find (fun (_, x) -> x = s) names)
let parse_sigs s = List.filter_map (fun n -> List.assoc_opt n names) (String.split_on_char ',' s)

let op_of ws =
  let arg = match ws with _ :: a :: _ -> a | _ -> "" in
  match ws with
  | "new" :: _ -> Some (SNew (parse_sigs arg))
  | "add" :: _ -> Some (SAdd (parse_sigs arg))
  | "rem" :: _ -> Some (SRemove (parse_sigs arg))
  | "set" :: _ -> Some (SSet (parse_sigs arg))
  | "drop" :: _ -> Some SDrop
  | "raise" :: _ -> (match parse_sigs arg with [x] -> Some (SRaise x) | _ -> None)
  | "disp" :: _ -> Some SDispatch
  | _ -> None

let rec drop n l = if n <= 0 then l else match l with [] -> [] | _ :: t -> drop (n - 1) t

let handle line =
  let ops = List.filter_map (fun o -> op_of (words o)) (String.split_on_char ';' line) in
  let st = ref s_init in
  let outs = List.map (fun o ->
      let before = List.length !st.reported in
      st := s_step !st o;
      let bits = String.concat "" (List.map (fun (_, x) -> if !st.blocked x then "1" else "0") names) in
      let counts = String.concat "," (List.map (fun (_, x) -> string_of_n (!st.handled x)) names) in
      let rep = String.concat "," (List.map name_of (drop before !st.reported)) in
      Printf.sprintf "%s/%s/%s" bits counts rep) ops in
  String.concat " " outs ^ Printf.sprintf " | escaped=%s" (String.concat "," (List.map name_of !st.escaped))

let run () = iter_lines (fun l -> print_endline (handle l))
