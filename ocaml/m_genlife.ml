(* driver for the Generic-lifecycle model (C16, coq/theories/GenLife.v): same case lines as harness/src/m_genlife.rs.
   One history per line; ops: n<g>:<fd>:<it>:<md> (Generic::new)  s<g>:<it>:<md> (set interest/mode)  r<g>:<k> (register, token
   sub-id k)  m<g>:<k> (reregister)  u<g> (unregister)  w<g> (unwrap)  d<g> (drop).
   Output: per op "<code>/<table>" where table = the poller's entries (Loop.ep_line codes, sorted, comma separated; "-" when empty) *)
open Model
open Util
let tz (z : Model.z) : ZZ.t = match z with Z0 -> ZZ.zero | Zpos p -> z_of_pos p | Zneg p -> ZZ.neg (z_of_pos p)
let ns = n_of_string
let parse (w : string) : gop option =
  let kind = w.[0] in
  let f = String.split_on_char ':' (String.sub w 1 (String.length w - 1)) in
  match kind, f with
  | 'n', [g; fd; it; md] -> Some (GNew (ns g, ns fd, int_of_code (ns it), mode_of_code (ns md)))
  | 's', [g; it; md] -> Some (GSet (ns g, int_of_code (ns it), mode_of_code (ns md)))
  | 'r', [g; k] -> Some (GReg (ns g, ns k))
  | 'm', [g; k] -> Some (GRereg (ns g, ns k))
  | 'u', [g] -> Some (GUnreg (ns g))
  | 'w', [g] -> Some (GUnwrap (ns g))
  | 'd', [g] -> Some (GDrop (ns g))
  | _ -> None
let handle line =
  let ops = List.filter_map parse (words line) in
  let res = gl_run ops in
  String.concat " " (List.map (fun (c, tbl) ->
      string_of_n c ^ "/" ^ (if tbl = [] then "-" else String.concat "," (List.map (fun z -> ZZ.to_string (tz z)) tbl))) res)
let run () = iter_lines (fun l -> print_endline (handle l))
