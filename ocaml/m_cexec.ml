(* driver for the concurrent executor model (C10): same case lines as harness/src/m_cexec.rs *)
open Model
open Util

let ev_s = function
  | EStep (t, y) -> Printf.sprintf "%d:%s" (int_of_nat t) (string_of_n y)
  | EPolled j -> Printf.sprintf "POLL%d" (int_of_nat j)
  | EDone j -> Printf.sprintf "DONE%d" (int_of_nat j)

let chars s = List.init (String.length s) (String.get s)

let has_step (s : est) k =
  if k = 0 then (match s.eloop.et_stage, s.eloop.et_ops with EI, [] -> false | _ -> true)
  else match List.nth_opt s.ethr (k - 1) with
    | Some t -> (match t.wt_stage with WIdle -> t.wt_ops <> [] | _ -> true)
    | None -> false

let handle line =
  match List.map String.trim (String.split_on_char '|' line) with
  | [scripts; lops; wprogs; sched] ->
      let scripts = List.map (fun s -> List.map (fun c -> n_of_int (match c with 'r' -> 1 | 'w' -> 2 | _ -> 0)) (chars (String.trim s))) (String.split_on_char ',' scripts) in
      let lops = List.map (fun w -> if w.[0] = 's' then ESched (nat_of_int (int_of_string (String.sub w 1 (String.length w - 1)))) else EDispatch) (words lops)
                 @ [EDispatch; EDispatch; EDispatch; EDispatch] in
      let wprogs = if wprogs = "" then [] else
          List.map (fun p -> List.filter_map (fun c -> if c >= '0' && c <= '9' then Some (nat_of_int (Char.code c - 48)) else None) (chars p))
            (String.split_on_char ';' wprogs) in
      let sched = List.filter_map (fun c -> if c >= '0' && c <= '9' then Some (Char.code c - 48) else None) (chars sched) in
      let n = List.length wprogs + 1 in
      let s = ref (e_init (nat_of_int 1024) scripts lops wprogs) in
      List.iter (fun k -> if k < n then s := e_step !s (nat_of_int k)) sched;
      let guard = ref 0 in
      let continue = ref true in
      while !continue && !guard < 20000 do
        incr guard;
        let order = (List.init (n - 1) (fun i -> i + 1)) @ [0] in
        match List.find_opt (fun k -> has_step !s k) order with
        | Some k -> s := e_step !s (nat_of_int k)
        | None -> continue := false
      done;
      String.concat " " (List.rev_map ev_s !s.elog)
  | _ -> "BAD"

let run () = iter_lines (fun l -> print_endline (handle l))
