(* driver for the run()/block_on()/LoopSignal model (C11): same case lines as harness/src/m_crun.rs *)
open Model
open Util

let ev_s = function
  | RStep (t, y) -> Printf.sprintf "%d:%s" (int_of_nat t) (string_of_n y)
  | RPolled -> "POLL" | RIter -> "ITER" | RWoke -> "WOKE"
  | RReturned b -> if b then "RET1" else "RET0"

let prog_of s = List.filter_map (function 's' -> Some RStop | 'w' -> Some RWakeup | 'k' -> Some RWake | _ -> None)
    (List.init (String.length s) (String.get s))

let has_step (s : rst) k =
  if k = 0 then (match s.pc with LWaiting | LDone _ -> false | _ -> true)
  else match List.nth_opt s.rthr (k - 1) with
    | Some t -> (match t.rt_stage with RIdle -> t.rt_ops <> [] | _ -> true)
    | None -> false

(* the trace lists a step's token before what the step logged; a wake-up of the blocked loop (ITER after WOKE) comes after *)
let handle line =
  match String.split_on_char '|' line with
  | [head; progs; sched] ->
      let hw = words head in
      let bo = (List.hd hw = "blockon") in
      let script = (match hw with _ :: f :: _ -> List.map (fun c -> n_of_int (match c with 'r' -> 1 | 'w' -> 2 | _ -> 0)) (List.init (String.length f) (String.get f)) | _ -> []) in
      let progs = List.map (fun p -> prog_of (String.trim p)) (String.split_on_char ';' progs) in
      let sched = List.filter_map (fun c -> if c >= '0' && c <= '9' then Some (Char.code c - 48) else None)
          (List.init (String.length sched) (String.get sched)) in
      let n = List.length progs + 1 in
      let s = ref (r_init bo script progs) in
      List.iter (fun k -> if k < n then s := r_step !s (nat_of_int k)) sched;
      let guard = ref 0 in
      let continue = ref true in
      while !continue && !guard < 5000 do
        incr guard;
        let order = (List.init (n - 1) (fun i -> i + 1)) @ [0] in
        match List.find_opt (fun k -> has_step !s k) order with
        | Some k -> s := r_step !s (nat_of_int k)
        | None -> continue := false
      done;
      let toks = List.rev_map ev_s !s.rlog in
      String.concat " " toks ^ (match !s.pc with LWaiting -> " WAITING" | _ -> "")
  | _ -> "BAD"

let run () = iter_lines (fun l -> print_endline (handle l))
