(* driver for the concurrent ping model (C03): same case lines as harness/src/m_cping.rs *)
open Model
open Util

let prog_of s = List.filter_map (function 'p' -> Some PPing | 'c' -> Some PClone | 'x' -> Some PDrop | _ -> None)
    (List.init (String.length s) (String.get s))

let ev_s = function
  | PStep (t, y) -> Printf.sprintf "%d:%s" (int_of_nat t) (string_of_n y)
  | PCallback -> "CB"
  | PRemoved -> "RM"
  | PReturned t -> Printf.sprintf "P%d" (int_of_nat t)

(* does thread k still have a step to make? *)
let has_step (s : cpst) k =
  if k = 0 then (match s.lp.lt_stage, s.lp.lt_ops with LIdle, [] -> false | _ -> true)
  else match List.nth_opt s.thr (k - 1) with
    | Some t -> t.pt_closing || t.pt_ops <> []
    | None -> false

let handle line =
  match String.split_on_char '|' line with
  | [nd; progs; sched] ->
      let hw = List.map int_of_string (words nd) in
      let nd = List.hd hw in
      let cbp = (match hw with _ :: c :: _ -> c | _ -> 0) in
      let progs = List.map (fun p -> prog_of (String.trim p)) (String.split_on_char ';' progs) in
      let sched = List.filter_map (fun c -> if c >= '0' && c <= '9' then Some (Char.code c - 48) else None)
          (List.init (String.length sched) (String.get sched)) in
      let n = List.length progs + 1 in
      let s = ref (cp_init progs (nat_of_int (nd + 3)) (nat_of_int cbp)) in
      List.iter (fun k -> if k < n then s := cp_step !s (nat_of_int k)) sched;
      (* finalisation as in the harness: pingers first (index order), then the loop thread *)
      let guard = ref 0 in
      let continue = ref true in
      while !continue && !guard < 10000 do
        incr guard;
        let order = (List.init (n - 1) (fun i -> i + 1)) @ [0] in
        match List.find_opt (fun k -> has_step !s k) order with
        | Some k -> s := cp_step !s (nat_of_int k)
        | None -> continue := false
      done;
      String.concat " " (List.rev_map ev_s !s.tr)
  | _ -> "BAD"

let run () = iter_lines (fun l -> print_endline (handle l))
