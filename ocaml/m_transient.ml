(* driver for the TransientSource model (C18): same case lines as harness/src/m_transient.rs *)
open Model
open Util

let b01 b = if b then "1" else "0"
let ev_s = function
  | CReg (i, ok) -> "G" ^ string_of_n i ^ ":" ^ b01 ok
  | CRereg (i, ok) -> "Y" ^ string_of_n i ^ ":" ^ b01 ok
  | CUnreg (i, ok) -> "U" ^ string_of_n i ^ ":" ^ b01 ok
  | CDrop (i, r) -> "D" ^ string_of_n i ^ ":" ^ b01 r
  | CFwd i -> "F" ^ string_of_n i
  | CRet c -> "T" ^ string_of_n c
  | CRes ok -> "S" ^ b01 ok

let op_of = function
  | "evC" -> Some (OpEvent Continue) | "evR" -> Some (OpEvent Reregister) | "evD" -> Some (OpEvent Disable)
  | "evM" -> Some (OpEvent Remove) | "rm" -> Some OpRemove | "rp" -> Some OpReplace | "reg" -> Some OpRegister
  | "rereg" -> Some OpReregister | "unreg" -> Some OpUnregister
  | w when String.length w = 3 && w.[0] = 'e' && (w.[2] = 'm' || w.[2] = 'p') ->
      let a = (match w.[1] with 'C' -> Some Continue | 'R' -> Some Reregister | 'D' -> Some Disable | 'M' -> Some Remove | _ -> None) in
      (match a with Some a -> Some (OpEventThen (a, w.[2] = 'p')) | None -> None)
  | _ -> None

let handle ws =
  match ws with
  | [] -> ""
  | start :: ops ->
      let from = (start = "from") in
      let ops = List.filter_map op_of ops in
      let s = t_run from ops in
      let none = (match s.ts with TNone -> true | _ -> false) in
      Printf.sprintf "%s | none=%s map=%s | proto=%s f7free=%s ok=%s"
        (String.concat " " (List.map ev_s s.evs)) (b01 none) (b01 (t_map_some s.ts))
        (b01 (proto_ok (t_init from) ops)) (b01 (f7_free (t_init from) ops)) (b01 (all_ok s.evs))

let run () = iter_lines (fun l -> print_endline (handle (words l)))
