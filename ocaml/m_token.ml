(* driver commands for the token codec (C20) and PostAction combination (C09) *)
open Model
open Util
module ZZ = Util.ZZ

let tok_s (t : tok) = Printf.sprintf "%s %s %s" (string_of_n t.t_id) (string_of_n t.t_ver) (string_of_n t.t_sub)
let mk a b c = { t_id = n_of_string a; t_ver = n_of_string b; t_sub = n_of_string c }

let handle (ws : string list) : string =
  match ws with
  | ["pack"; a; b; c] -> string_of_n (pack (mk a b c))
  | ["unpack"; k] -> tok_s (unpack (n_of_string k))
  | ["incver"; a; b; c] -> tok_s (increment_version (mk a b c))
  | ["incsub"; a; b; c] -> (match increment_sub_id (mk a b c) with Some t -> tok_s t | None -> "PANIC")
  | ["forget"; a; b; c] -> tok_s (forget_sub_id (mk a b c))
  | ["same"; a; b; c; d; e; f] -> if same_source_as (mk a b c) (mk d e f) then "1" else "0"
  | ["new"; a] -> (match tok_new (n_of_string a) with Some t -> tok_s t | None -> "ERR")
  | ["factory"; a; b; c; n] ->
      (match factory_take (factory_new (mk a b c)) (nat_of_int (int_of_string n)) with
       | None -> "PANIC"
       | Some l ->
           let keys = List.map (fun t -> ZZ.to_string (z_of_n (pack t))) l in
           String.concat " " (string_of_int (List.length keys) :: keys))
  | ["bitor"; a; b] -> string_of_n (pa_code (pa_bitor (pa_of_code (n_of_string a)) (pa_of_code (n_of_string b))))
  | ["bitor_assign"; a; b] -> string_of_n (pa_code (pa_bitor_assign (pa_of_code (n_of_string a)) (pa_of_code (n_of_string b))))
  | _ -> "BADCASE"

let run () = iter_lines (fun l -> print_endline (handle (words l)))
